#!/usr/bin/env python3
"""Sensitivity runs: apply one textual mutant to a scratch copy of the repo's
Python sources (never to /repo) and run the quick check of the properties it
should break.  Usage:

    tools/mutants.py [--only ID_SUBSTR] [--props C18,C04] [--jobs 8]

Mutants are listed in /verif/mutants.json:
    {"id":..., "props":[...], "file": "hugr-py/src/hugr/utils.py", "old":..., "new":..., "count": 1}
Prints a matrix line per (mutant, property): CAUGHT (exit 1), MISSED (exit 0), ERROR (exit 2).
"""
import argparse
import json
import os
import shutil
import subprocess
import sys
import tempfile
from concurrent.futures import ThreadPoolExecutor

HERE = os.path.dirname(os.path.dirname(os.path.abspath(__file__)))
REPO = "/repo"


def make_scratch(m):
    d = tempfile.mkdtemp(prefix="hugr-mut-")
    for sub in ("hugr-py/src", "specification", "scripts", "hugr-model/src/v0/ast"):
        src = os.path.join(REPO, sub)
        if os.path.exists(src):
            shutil.copytree(src, os.path.join(d, sub))
    p = os.path.join(d, m["file"])
    with open(p) as f:
        s = f.read()
    if s.count(m["old"]) < 1:
        shutil.rmtree(d)
        raise LookupError(f"mutant {m['id']}: pattern not found in {m['file']}")
    s = s.replace(m["old"], m["new"], m.get("count", 1))
    with open(p, "w") as f:
        f.write(s)
    return d


def run_one(m, prop, tier="quick"):
    try:
        d = make_scratch(m)
    except LookupError as e:
        return m["id"], prop, "STALE", [str(e)]
    try:
        env = dict(os.environ, VERIF_REPO=d, VERIF_EVIDENCE_DIR=os.path.join(d, "evidence"), VERIF_OUT_DIR=os.path.join(d, "out"))
        r = subprocess.run([os.path.join(HERE, "check"), prop, tier], capture_output=True, text=True, env=env, timeout=1800)
        status = {0: "MISSED", 1: "CAUGHT", 2: "ERROR"}.get(r.returncode, f"rc={r.returncode}")
        detail = [l for l in r.stdout.splitlines() if l.startswith(("FAIL", "HARNESS"))][:2]
        return m["id"], prop, status, detail
    finally:
        shutil.rmtree(d, ignore_errors=True)


def main():
    ap = argparse.ArgumentParser()
    ap.add_argument("--only")
    ap.add_argument("--props")
    ap.add_argument("--jobs", type=int, default=8)
    a = ap.parse_args()
    with open(os.path.join(HERE, "mutants.json")) as f:
        muts = json.load(f)
    jobs = []
    for m in muts:
        if a.only and a.only not in m["id"]:
            continue
        for p in m["props"]:
            if a.props and p not in a.props.split(","):
                continue
            jobs.append((m, p))
    bad = 0
    with ThreadPoolExecutor(a.jobs) as ex:
        for mid, prop, status, detail in ex.map(lambda mp: run_one(*mp), jobs):
            print(f"{status:7s} {prop} {mid}  {detail[0][:150] if detail else ''}")
            if status != "CAUGHT":
                bad += 1
    print(f"{len(jobs) - bad}/{len(jobs)} caught")
    return 1 if bad else 0


if __name__ == "__main__":
    sys.exit(main())
