#!/bin/bash
# Installs the third-party packages the checks need (jsonschema, atheris) into
# /verif/.deps from the offline wheelhouse.  Idempotent, lock-protected.
HERE="$(cd "$(dirname "${BASH_SOURCE[0]}")/.." && pwd)"
DEPS="$HERE/.deps"
PY="${VERIF_PYTHON:-/venv/bin/python}"
WH=/opt/veriftools/wheels
if [ -f "$DEPS/.ok" ]; then exit 0; fi
mkdir -p "$DEPS"
(
  flock 9
  if [ -f "$DEPS/.ok" ]; then exit 0; fi
  "$PY" -c "import hypothesis" 2>/dev/null || \
    "$PY" -m pip install -q --no-index --find-links "$WH" --target "$DEPS" hypothesis || exit 1
  "$PY" -m pip install -q --no-index --find-links "$WH" --target "$DEPS" jsonschema || exit 1
  "$PY" -m pip install -q --no-index --find-links "$WH" --target "$DEPS" atheris || echo "atheris unavailable" >&2
  touch "$DEPS/.ok"
) 9>"$DEPS/.lock"
