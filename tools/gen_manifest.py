#!/usr/bin/env python3
"""Regenerates /verif/MANIFEST.json from the table below and the set of
property modules present in vlib/props."""
import json
import os

HERE = os.path.dirname(os.path.dirname(os.path.abspath(__file__)))

# id -> (technique, level text, level note, design ref)
TABLE = {
    "C01": ("typed builder-program generation (Hypothesis) + independent reference validator over the serialized JSON",
            "Generated well-typed builder programs (all builder kinds, nesting, non-local wires, linear types, partial multi-output use) are executed against the real builders and the emitted document is judged by a reference validator re-implemented from the specification and the Rust sources; random search, no absence claim.",
            "Trusted: the reference validator in /verif/vlib/refval.py (calibrated on the upstream test programs and on seeded invalid documents), the program generator's typing discipline."),
    "C02": ("round-trip + independent observation model over generated builder programs and mutation histories + coverage-guided stage in the thorough tier (atheris/libFuzzer driving the same Hypothesis strategies through fuzz_one_input)",
            "load_json(to_json(h)) is compared as JSON value and by an observation function (ops by encoded form, hierarchy, metadata, link multisets) under the order-preserving renumbering; generated histories include deletions, multi-links, order links, metadata of arbitrary JSON values.",
            "Trusted: observation function over the public query API; reference encoder for node ops."),
    "C03": ("JSON-schema validation + index-sanity + reference edge-offset model over generated HUGRs/packages/extensions",
            "Every emitted document is validated against the published strict schema with jsonschema, index sanity is computed on the raw JSON, and the edge multiset is recomputed from links() and a reference signature function.",
            "Trusted: jsonschema implementation, published schema file, reference port-offset function (vlib/refsig.py)."),
    "C04": ("stateful model-based testing (history of store operations vs. sequential port-multigraph model) + coverage-guided stage in the thorough tier (atheris/libFuzzer driving the same Hypothesis strategies through fuzz_one_input)",
            "Random histories of add/link/delete/insert operations on hugr.Hugr are mirrored on a plain sequential model; every query is compared after every step.",
            "Trusted: the sequential model in vlib/props/c04.py."),
    "C05": ("round-trip + reference encoder + attribute-wise equality over generated type/value/op ASTs; foreign-document metamorphic re-encoding",
            "Generated ASTs are interpreted into hugr objects; their encoding must equal an independent reference encoder, decode(encode(x)) must re-encode identically, keep derived facts and equal x attribute by attribute; schema-valid foreign-style documents must survive load/save.",
            "Trusted: reference encoder (vlib/refenc.py) written from the schema and Rust serde types."),
    "C06": ("differential testing of op signatures/port kinds against a reference signature algebra over generated ops + coverage-guided stage in the thorough tier (atheris/libFuzzer driving the same Hypothesis strategies through fuzz_one_input)",
            "Each generated op's outer/inner signature, port kinds/types and output count are compared with ref_sig computed from the op's AST per the specification's typing rules.",
            "Trusted: reference signature algebra (vlib/refsig.py)."),
    "C07": ("differential testing of type_bound against a reference bound function + exhaustive enumeration of TypeBound.join + coverage-guided stage in the thorough tier (atheris/libFuzzer driving the same Hypothesis strategies through fuzz_one_input)",
            "Generated types (deep nesting, extension types with explicit/from-params bounds, std containers) are compared with a reference bound; join is enumerated exhaustively on short sequences.",
            "Trusted: reference bound function over the type AST."),
    "C08": ("metamorphic/isomorphism check of insert_hugr over generated HUGR pairs + coverage-guided stage in the thorough tier (atheris/libFuzzer driving the same Hypothesis strategies through fuzz_one_input)",
            "For generated pairs (A,B) and parents, the returned mapping is checked to be an isomorphism onto the inserted subgraph, with A's old part and B unchanged.",
            "Trusted: observation function over the public query API."),
    "C09": ("round-trip over generated packages/configs + exhaustive enumeration of the 2^16 header byte pairs, truncations and magic corruptions",
            "Envelope encode/decode round trip on generated packages and configurations; header decoder enumerated completely.",
            "Trusted: pyzstd for decompression; reference header layout from the module docstring/header.rs."),
    "C10": ("round-trip over generated extensions + exhaustive check of the bundled std extension files and helpers",
            "Generated extensions are serialized, loaded and compared field by field and as documents; bundled files are compared byte-for-byte with the specification and every helper's definition is looked up.",
            "Trusted: the extension AST interpreter; arg_fits_param reference."),
    "C11": ("metamorphic testing of resolve_extensions over generated documents and registries",
            "Resolution against generated registries must replace exactly the resolvable opaque ops/types at every depth and leave serialization, model export, signatures and bounds unchanged; idempotence.",
            "Trusted: the reference 'resolvable' predicate computed from the case AST."),
    "C12": ("lock-step structural oracle over the exported model of generated module programs",
            "The exported hugr-model tree is walked in lock-step with the HUGR: region structure, port lists, link-name/edge equivalence, function symbols, order hints, metadata; model class attributes are compared with the names read by the Rust binding.",
            "Trusted: the exporter contract as re-stated in vlib/props/c12.py from export.rs/import.rs/python.rs."),
    "C13": ("fault-injection into generated builder programs: exactly one inconsistency must raise + coverage-guided stage in the thorough tier (atheris/libFuzzer driving the same Hypothesis strategies through fuzz_one_input)",
            "A well-formed generated program gets one injected inconsistency from a catalogue; building it must raise (documented class where documented) while the un-injected twin builds.",
            "Trusted: the inconsistency catalogue reflects the property statement."),
    "C14": ("differential testing of Value.type_ against a reference typing of value ASTs + reference constant validator + coverage-guided stage in the thorough tier (atheris/libFuzzer driving the same Hypothesis strategies through fuzz_one_input)",
            "Generated value ASTs: reported type vs ref_typeof; serialized value must inhabit the type under the reference const validator; std extension constants are checked structurally.",
            "Trusted: ref_typeof / const validator in vlib."),
    "C15": ("stateful differential testing: TrackedDfg vs explicit-wire Dfg driven in parallel by generated histories + coverage-guided stage in the thorough tier (atheris/libFuzzer driving the same Hypothesis strategies through fuzz_one_input)",
            "Histories of track/untrack/add/extend/set_outputs are applied to a TrackedDfg and, via the statement's reference index table, to a plain Dfg with explicit wires; the two HUGRs must be identical.",
            "Trusted: the reference index->wire table semantics taken from the property statement."),
    "C16": ("exhaustive enumeration of index/slice space for small n + Hypothesis for large n + builder-handle checks on generated programs + coverage-guided stage in the thorough tier (atheris/libFuzzer driving the same Hypothesis strategies through fuzz_one_input)",
            "Node handle indexing/slicing/iteration compared with range(n) semantics (with the two stated deviations); handles returned by builders must enumerate exactly the op's value outputs.",
            "Trusted: Python's range/slice semantics as reference."),
    "C17": ("exhaustive structural comparison of regenerated vs published schemas + generated differential (pydantic vs jsonschema) on mutated documents",
            "The four schema files are regenerated from the models and compared node by node; mutated documents must be accepted/rejected identically by pydantic and jsonschema.",
            "Trusted: jsonschema; normalisation of additionalProperties:true (pydantic version artefact)."),
    "C18": ("stateful model-based testing (Hypothesis list-of-steps + RuleBasedStateMachine) against a set-of-pairs model + coverage-guided stage in the thorough tier (atheris/libFuzzer driving the same Hypothesis strategies through fuzz_one_input)",
            "Random operation histories over a key pool with falsy keys; forward/backward views, length, iteration and lookups compared with a reference model after every step; constructor checked on arbitrary small mappings.",
            "Trusted: the reference model (a dict maintained by the displacement rule of the statement)."),
    "C19": ("differential testing of shot-result conversion against a reference replay model over generated shots + coverage-guided stage in the thorough tier (atheris/libFuzzer driving the same Hypothesis strategies through fuzz_one_input)",
            "Generated shots (interleaved whole-register and indexed writes, bools, invalid values) and multi-shot results are converted and compared with an in-order replay reference.",
            "Trusted: the replay model written from the statement/module docstring."),
    "C20": ("structural oracle over the parsed DOT source of generated HUGRs + metamorphic relation across render configs + coverage-guided stage in the thorough tier (atheris/libFuzzer driving the same Hypothesis strategies through fuzz_one_input)",
            "DOT source is parsed by an independent tolerant parser; node statements, port cells, clusters and edge statements are matched against the HUGR; config changes may only alter colours/op-name prefixes.",
            "Trusted: the DOT statement parser in vlib/props/c20.py."),
}


def main():
    present = sorted(
        f[:-3].upper() for f in os.listdir(os.path.join(HERE, "vlib", "props")) if f.startswith("c") and f.endswith(".py")
    )
    checks = []
    na = []
    for pid in sorted(TABLE):
        tech, text, note = TABLE[pid]
        if pid in present:
            checks.append(
                {
                    "property_id": pid,
                    "quick_cmd": f"./check {pid} quick",
                    "thorough_cmd": f"./check {pid} thorough",
                    "evidence_file": f"/verif/evidence/{pid}.json",
                    "replay_cmd_template": f"./check {pid} quick --replay {{path}}",
                    "engine": "hypothesis-runner",
                    "level_claimed": {"category": "exploration", "text": text, "design_ref": f"DESIGN.md section 3 ({pid})"},
                    "level_note": note,
                    "technique": tech,
                }
            )
        else:
            na.append({"property_id": pid, "reason": "check not built yet in this round (planned, see DESIGN.md section 6); not claimed until it exists"})
    manifest = {
        "version": 1,
        "setup_cmd": "./tools/setup.sh",
        "hooks": {
            "guard": "CQCL_HUGR_PYTHON_VERIF",
            "enable": "no source hooks are needed: checks import hugr from /repo/hugr-py/src in a fresh process (PYTHONPATH), so they always run the current working tree",
            "baseline_off_cmd": "cd /repo && /venv/bin/python -m pytest -ra -q -p no:cacheprovider --timeout=900 --continue-on-collection-errors",
            "source_commits": [],
            "add_only": True,
        },
        "engines": [
            {
                "name": "hypothesis-runner",
                "path": "/verif/vlib",
                "serves_properties": [c["property_id"] for c in checks],
                "kind_free_text": "Hypothesis 6.168 strategies / state machines generating plain-data cases, interpreted against hugr-py; reference models as oracles; collect-bucket-shrink runner (vlib/runner.py, vlib/main.py)",
            }
        ],
        "checks": checks,
        "not_applicable": na,
        "notes": "All checks: ./check <ID> <quick|thorough> [--replay file]; exit 0/1/2 as specified; evidence written by the check itself.",
    }
    with open(os.path.join(HERE, "MANIFEST.json"), "w") as f:
        json.dump(manifest, f, indent=1)
        f.write("\n")
    print("claimed:", [c["property_id"] for c in checks])


if __name__ == "__main__":
    main()
