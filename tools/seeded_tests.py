#!/usr/bin/env python3
"""Confirm that a seeded change keeps the repository's pinned test-suite green: a scratch git worktree of
/repo (outside /repo and /verif), the patch applied, the baseline command run there, the stable-pass list compared.
    tools/seeded_tests.py [--jobs 6] NAME_REGEX
The worktree is removed afterwards."""
import json, os, re, subprocess, sys, tempfile, shutil
import xml.etree.ElementTree as ET
from concurrent.futures import ThreadPoolExecutor

HERE = os.path.dirname(os.path.dirname(os.path.abspath(__file__)))
BASE = {b.replace("/", ".") for b in json.load(open("/root/.vp/BASELINE.json"))["stable_pass"]}


def one(name):
    wt = tempfile.mkdtemp(prefix="hugr-seedtest-")
    os.rmdir(wt)
    try:
        subprocess.run(["git", "-C", "/repo", "worktree", "add", "-q", "--detach", wt, "HEAD"], check=True, capture_output=True)
        r = subprocess.run(["git", "-C", wt, "apply", os.path.join(HERE, "seeded", name, "patch.diff")], capture_output=True, text=True)
        if r.returncode:
            return f"{name}: patch does not apply: {r.stderr[-200:]}"
        out = os.path.join(wt, "junit.xml")
        subprocess.run(["/venv/bin/python", "-m", "pytest", "-ra", "-q", "-p", "no:cacheprovider", "--timeout=900", "--continue-on-collection-errors", f"--junitxml={out}"], cwd=wt, capture_output=True)
        passed = set()
        for tc in ET.parse(out).iter("testcase"):
            if any(ch.tag in ("failure", "error", "skipped") for ch in tc):
                continue
            passed.add((tc.get("classname", "") + "::" + tc.get("name", "")).replace("/", "."))
        missing = [b for b in BASE if b not in passed]
        return f"{name}: tests {len(BASE) - len(missing)}/{len(BASE)}" + (f" MISSING {missing[:3]}" if missing else " [tests OK]")
    except Exception as e:  # noqa: BLE001
        return f"{name}: ERROR {e!r}"
    finally:
        subprocess.run(["git", "-C", "/repo", "worktree", "remove", "--force", wt], capture_output=True)
        shutil.rmtree(wt, ignore_errors=True)
        subprocess.run(["git", "-C", "/repo", "worktree", "prune"], capture_output=True)


def main():
    jobs = 6
    args = sys.argv[1:]
    if args and args[0] == "--jobs":
        jobs = int(args[1]); args = args[2:]
    rx = re.compile(args[0])
    names = [n for n in sorted(os.listdir(os.path.join(HERE, "seeded"))) if rx.search(n) and os.path.exists(os.path.join(HERE, "seeded", n, "patch.diff"))]
    with ThreadPoolExecutor(jobs) as ex:
        for line in ex.map(one, names):
            print(line, flush=True)


main()
