#!/bin/bash
# Import the finished changes of a seeding round into /verif/seeded/<ID>-<n> and remove the worktree.
#   tools/import_round.sh /tmp/seed12 C07 C19 ...
DIR=$1; shift
cd "$(dirname "$0")/.." || exit 2
for id in "$@"; do
  for c in "$DIR/$id"/out/change*; do
    [ -f "$c/patch.diff" ] && [ -f "$c/demo.py" ] && [ -f "$c/meta.json" ] || { echo "incomplete: $c"; continue; }
    n=1; while [ -e "seeded/$id-$n" ]; do n=$((n+1)); done
    mkdir -p "seeded/$id-$n"; cp "$c/patch.diff" "$c/demo.py" "$c/meta.json" "seeded/$id-$n/"
    echo "$c -> seeded/$id-$n"
  done
  git -C /repo worktree remove --force "$DIR/$id/wt" 2>/dev/null
done
git -C /repo worktree prune
