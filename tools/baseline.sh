#!/bin/bash
# Runs the repository's pinned baseline test command and checks that all 180 stable tests still pass.
OUT=$(mktemp /tmp/baseline.XXXXXX.xml)
cd /repo && /venv/bin/python -m pytest -ra -q -p no:cacheprovider --timeout=900 --continue-on-collection-errors --junitxml="$OUT" >/dev/null 2>&1
/venv/bin/python - "$OUT" <<'PY'
import json, sys, xml.etree.ElementTree as ET
base = set(json.load(open('/root/.vp/BASELINE.json'))['stable_pass'])
t = ET.parse(sys.argv[1])
passed = set()
for tc in t.iter('testcase'):
    if any(ch.tag in ('failure', 'error', 'skipped') for ch in tc):
        continue
    passed.add(tc.get('classname', '') + '::' + tc.get('name', ''))
def norm(s):
    return s.replace('/', '.')
passed = {norm(p) for p in passed}
missing = [b for b in base if norm(b) not in passed]
print(f"baseline: {len(base) - len(missing)}/{len(base)} stable tests pass; junit passed total {len(passed)}")
for m in missing[:10]:
    print("  MISSING", m)
sys.exit(1 if missing else 0)
PY
rc=$?
rm -f "$OUT"
exit $rc
