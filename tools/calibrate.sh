#!/bin/bash
# Oracle self-test (a): run the upstream builder tests with the reference
# validator as HUGR_BIN.  Every program there was accepted by the real Rust
# validator upstream, so each document must be accepted by refval.
# Prints one JSON line: {"documents": N, "rejected": K, "examples": [...]}
HERE="$(cd "$(dirname "${BASH_SOURCE[0]}")/.." && pwd)"
REPO="${VERIF_REPO:-/repo}"
LOG=$(mktemp /tmp/verif-shim.XXXXXX)
cd "$REPO/hugr-py" || exit 2
VERIF_SHIM_LOG="$LOG" HUGR_BIN="$HERE/tools/hugr_bin_shim" PYTHONPATH="$HERE/tools/calib:$REPO/hugr-py/src" PYTHONDONTWRITEBYTECODE=1 \
  /venv/bin/python -m pytest -q -p no:cacheprovider -p verif_snapshot_plugin tests >/dev/null 2>&1
/venv/bin/python - "$LOG" <<'PY'
import json, sys
rows = [json.loads(l) for l in open(sys.argv[1])]
rej = [r for r in rows if r["errors"]]
print(json.dumps({"documents": len(rows), "rejected": len(rej), "examples": [r["errors"][:2] for r in rej[:8]]}))
PY
rm -f "$LOG"
