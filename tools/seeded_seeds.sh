#!/bin/bash
# Robustness of the sensitivity evidence: every seeded change against the quick check of its target
# property at several VERIF_SEED values.  Prints the changes missed at some seed.
#   tools/seeded_seeds.sh 1 2 3 4      (logs: /tmp/seeded_seed<N>.log; the seed-1 log feeds seeded_matrix.py)
cd "$(dirname "$0")/.." || exit 2
for s in "${@:-1 2 3}"; do
  VERIF_SEED=$s python3 tools/seeded.py --jobs "${JOBS:-12}" > /tmp/seeded_seed$s.log 2>&1
  echo "seed $s: $(grep -c CAUGHT /tmp/seeded_seed$s.log) caught; not caught: $(grep -E 'MISSED|ERROR' /tmp/seeded_seed$s.log | awk '{print $3}' | tr '\n' ' ')"
done
