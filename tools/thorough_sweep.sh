#!/bin/bash
# Runs every thorough check once; prints verdict lines.
cd "$(dirname "$0")/.." || exit 2
for p in ${*:-C01 C02 C03 C04 C05 C06 C07 C08 C09 C10 C11 C12 C13 C14 C15 C16 C17 C18 C19 C20}; do
  s=$(date +%s); out=$(./check $p thorough 2>&1); rc=$?
  echo "$p rc=$rc $(( $(date +%s) - s ))s $(echo "$out" | tail -1)"
  if [ $rc -ne 0 ]; then echo "$out" | grep -E "FAIL|VIOLATION|HARNESS" | head -6; fi
done
