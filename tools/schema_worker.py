"""Persistent worker for C17: rebuilds the serialization models exactly as
scripts/generate_schema.py does (strict or lax configuration; "default" = as imported) and answers, per
input line {"kind": ..., "doc": ...}, whether pydantic accepts the document."""
import json
import sys

from pydantic import ConfigDict

from hugr._serialization.extension import Extension, Package
from hugr._serialization.serial_hugr import SerialHugr

mode = sys.argv[1]
if mode != "default":  # "default": the models as imported, never rebuilt (what Hugr.load_json / Package.from_bytes use)
    config = ConfigDict(strict=True, extra="forbid") if mode == "strict" else ConfigDict(strict=False, extra="allow")
    SerialHugr._pydantic_rebuild(config, force=True)
MODELS = {"SerialHugr": SerialHugr, "Package": Package, "Extension": Extension}
print("READY", flush=True)
for line in sys.stdin:
    try:
        req = json.loads(line)
        MODELS[req["kind"]].model_validate_json(json.dumps(req["doc"]))
        print("1", flush=True)
    except Exception as e:  # noqa: BLE001
        name = type(e).__name__
        print("0" if name == "ValidationError" else "E " + name, flush=True)
