"""Persistent worker for C17: rebuilds the serialization models exactly as
scripts/generate_schema.py does (strict or lax configuration; "default" = as imported) and answers, per
input line {"kind": ..., "doc": ...}, whether pydantic accepts the document."""
import json
import sys

from pydantic import ConfigDict

from hugr._serialization.extension import Extension, Package
from hugr._serialization.serial_hugr import SerialHugr

mode = sys.argv[1]
if mode != "default":  # "default": the models as imported, never rebuilt (what Hugr.load_json / Package.from_bytes use)
    config = ConfigDict(strict=True, extra="forbid") if mode == "strict" else ConfigDict(strict=False, extra="allow")
    SerialHugr._pydantic_rebuild(config, force=True)
def verdict(f):
    try:
        f()
        return "1"
    except Exception as e:  # noqa: BLE001
        name = type(e).__name__
        return "0" if name == "ValidationError" else "E " + name


MODELS = {"SerialHugr": SerialHugr, "Package": Package, "Extension": Extension}
print("READY", flush=True)
for line in sys.stdin:
    try:
        req = json.loads(line)
        ans = verdict(lambda: MODELS[req["kind"]].model_validate_json(json.dumps(req["doc"])))
        if req["kind"] == "SerialHugr" and ans in ("0", "1") and isinstance(req["doc"], dict):
            # the decoder's own entry point (what Hugr.load_json calls) judges the same document
            ans2 = verdict(lambda: SerialHugr.load_json(req["doc"]))
            # (under the strict configuration validation of Python objects is narrower than validation of JSON text,
            # lists are not tuples there: only an acceptance by load_json of what the JSON decoder rejects counts)
            if ans2 != ans and (mode != "strict" or (ans == "0" and ans2 == "1")):
                ans = f"D validate={ans} load_json={ans2}"
        print(ans, flush=True)
    except Exception as e:  # noqa: BLE001
        print("E " + type(e).__name__, flush=True)
