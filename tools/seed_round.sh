#!/bin/bash
# Prepare a seeding round: one scratch git worktree of /repo per property under $DIR (outside /repo and
# /verif) and one prompt file per property for a fresh sub-agent that sees only the property text.
#   tools/seed_round.sh /tmp/seed4 C01 C02 ...
# Afterwards: copy $DIR/<ID>/out/change<i>/ to /verif/seeded/<ID>-<n>/, then
#   for each: git -C /repo worktree remove --force $DIR/<ID>/wt ; git -C /repo worktree prune ; rm -rf $DIR
set -e
DIR=$1; shift
mkdir -p "$DIR"
cat > "$DIR/PROMPT.txt" <<'EOF'
You are helping to evaluate a verification harness by producing realistic BUGS ("seeded changes") in an open-source Python library. You work ONLY inside the git worktree __DIR__/__ID__/wt (a checkout of the CQCL/hugr repository; the Python package is under hugr-py/src/hugr) and write your results ONLY under __DIR__/__ID__/out. Do NOT read, list or modify anything under /verif or /repo, and do not look at other __DIR__/* directories. Do NOT use `git stash` (the worktrees share one stash); use `git diff > file`, `git checkout -- .` and `git apply`.

The property that your changes must BREAK is:

__PROPERTY__

Task: produce TWO different, independent source changes to hugr-py (files under hugr-py/src/hugr; for schema-related properties also specification/schema) such that each change
 (1) makes the library violate the property above for some inputs / histories,
 (2) still imports fine and still passes the existing test-suite: on the clean tree `cd __DIR__/__ID__/wt && /venv/bin/python -m pytest -q -p no:cacheprovider --timeout=900 --continue-on-collection-errors 2>&1 | tail -5` reports 180 passed (plus 29 failed and 10 errors that need a Rust binary which is not available; ignore those). With your change applied the SAME 180 tests must still pass,
 (3) is realistic (the kind of slip a maintainer could make), and
 (4) is SUBTLE: it must need something specific to manifest. Earlier reviewers already proposed the obvious slips (a wrong variable in an index computation, a dropped field in a (de)serializer, an off-by-one, a forgotten None/empty case, a missing list() around a generator). Look for something different: an interaction between two features that each work alone; state that leaks between calls or objects (shared mutable default, cache, aliasing of lists/dicts between the input and the result); an ordering issue; a bug on an error path or after an exception was raised and caught; a wrong result only for boundary values (0, empty, maximum); a condition that holds in the common configuration but not for a rarely combined one; a change in one function that is compensated by its usual caller but not by another caller.

For each change i in {1,2} create the directory __DIR__/__ID__/out/change<i>/ containing:
 - patch.diff : output of `git -C __DIR__/__ID__/wt diff` with only that change applied (must apply cleanly with `git apply` on the clean tree),
 - demo.py : a small self-contained program, run as `PYTHONPATH=__DIR__/__ID__/wt/hugr-py/src /venv/bin/python demo.py`, that exits with status 0 on the clean tree and with a NON-ZERO status when the patch is applied; it should demonstrate the violation of the property through the public API,
 - meta.json : {"property": "__ID__", "summary": "<one sentence: what was changed>", "needs": "<what specific input / sequence is needed for the bug to manifest>", "files": ["<touched file>", ...]}.
After saving each patch, restore the worktree with `git -C __DIR__/__ID__/wt checkout -- .`, and re-verify from the saved patch: demo.py exits 0 on the clean tree and non-zero with the patch applied (`git apply`), and the test-suite still has 180 passes with the patch applied. Leave the worktree clean at the end.

Notes: run python as /venv/bin/python with PYTHONPATH=__DIR__/__ID__/wt/hugr-py/src (the package is not installed). No network access. Keep each patch small. In your final answer give, for each change, the summary, what it needs to manifest, and the three verification results.
EOF
for id in "$@"; do
  git -C /repo worktree add -q --detach "$DIR/$id/wt" HEAD
  mkdir -p "$DIR/$id/out"
done
python3 - "$DIR" "$@" <<'EOF'
import json, sys
d, ids = sys.argv[1], sys.argv[2:]
tmpl = open(f"{d}/PROMPT.txt").read()
for l in open("/verif/properties.jsonl"):
    p = json.loads(l); i = p["id"]
    if i not in ids:
        continue
    prop = f"Property {i}: {p['title']}\n\nStatement: {p['statement']}\n\nQuantified over: {p['quantifier']['text']}\n\nRelevant files: {', '.join(p['anchors']['files'])}\n"
    text = tmpl.replace("__DIR__", d).replace("__ID__", i).replace("__PROPERTY__", prop)
    # one-line summaries of the changes already kept for this property (ideas only, nothing about the checks)
    import glob
    ideas = [json.load(open(f))["summary"].split(". ")[0][:160] for f in sorted(glob.glob(f"/verif/seeded/{i}-*/meta.json"))]
    if ideas:
        text += "\n\nAlready-known ideas (do NOT repeat these or close variants; find different mechanisms and, if possible, different functions):\n" + "\n".join(f"- {x}" for x in ideas) + "\n"
    open(f"{d}/{i}.prompt", "w").write(text)
EOF
git -C /repo worktree list | wc -l
