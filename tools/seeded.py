#!/usr/bin/env python3
"""Run checks against seeded changes kept under /verif/seeded/<name>/ (patch.diff,
demo.py, meta.json).  The patch is applied to a scratch copy of the repository's
sources (never to /repo); the copy is removed afterwards.

    tools/seeded.py [--only NAME_SUBSTR] [--props C01,C02 | --all-props] [--tier quick] [--jobs 6] [--dir /verif/seeded]

For every seeded change: (1) demo.py must pass on the clean copy and fail on the
patched copy; (2) the quick check of the property it targets (or of the listed
properties) should exit 1 (CAUGHT)."""
import argparse
import re
import json
import os
import shutil
import subprocess
import sys
import tempfile
from concurrent.futures import ThreadPoolExecutor

HERE = os.path.dirname(os.path.dirname(os.path.abspath(__file__)))
REPO = "/repo"
ALL = [f"C{i:02d}" for i in range(1, 21)]


def scratch(patch=None):
    d = tempfile.mkdtemp(prefix="hugr-seed-")
    for sub in ("hugr-py", "specification", "scripts", "hugr-model/src/v0/ast"):
        src = os.path.join(REPO, sub)
        if os.path.exists(src):
            shutil.copytree(src, os.path.join(d, sub), ignore=shutil.ignore_patterns("__pycache__", ".pytest_cache"))
    if patch:
        r = subprocess.run(["patch", "-p1", "-s", "-d", d, "-i", patch], capture_output=True, text=True)
        if r.returncode != 0:
            shutil.rmtree(d)
            raise RuntimeError(f"patch does not apply: {r.stdout[-300:]} {r.stderr[-300:]}")
    return d


def run_demo(d, demo):
    env = dict(os.environ, PYTHONPATH=os.path.join(d, "hugr-py", "src"), PYTHONDONTWRITEBYTECODE="1")
    r = subprocess.run(["/venv/bin/python", demo], env=env, capture_output=True, text=True, timeout=600, cwd=os.path.dirname(demo))
    return r.returncode


def run_check(d, prop, tier):
    env = dict(os.environ, VERIF_REPO=d, VERIF_EVIDENCE_DIR=os.path.join(d, "evidence"), VERIF_OUT_DIR=os.path.join(d, "out"))
    r = subprocess.run([os.path.join(HERE, "check"), prop, tier], capture_output=True, text=True, env=env, timeout=3600)
    status = {0: "MISSED", 1: "CAUGHT", 2: "ERROR"}.get(r.returncode, f"rc={r.returncode}")
    detail = [l for l in r.stdout.splitlines() if l.startswith(("FAIL", "HARNESS"))][:1]
    return status, (detail[0][:160] if detail else "")


def one(job):
    name, sd, props, tier, demo_only = job
    patch = os.path.join(sd, "patch.diff")
    demo = os.path.join(sd, "demo.py")
    out = []
    clean = scratch()
    try:
        rc_clean = run_demo(clean, demo) if os.path.exists(demo) else None
    finally:
        shutil.rmtree(clean, ignore_errors=True)
    try:
        d = scratch(patch)
    except RuntimeError as e:
        return [f"{name}: ERROR {e}"[:300]]
    try:
        rc_patched = run_demo(d, demo) if os.path.exists(demo) else None
        out.append(f"{name}: demo clean rc={rc_clean} patched rc={rc_patched}" + ("  [demo OK]" if rc_clean == 0 and rc_patched not in (0, None) else "  [demo NOT discriminating]"))
        if not demo_only:
            for p in props:
                st, det = run_check(d, p, tier)
                out.append(f"  {st:7s} {p} {name}  {det}")
    finally:
        shutil.rmtree(d, ignore_errors=True)
    return out


def main():
    ap = argparse.ArgumentParser()
    ap.add_argument("--only")
    ap.add_argument("--props")
    ap.add_argument("--all-props", action="store_true")
    ap.add_argument("--tier", default="quick")
    ap.add_argument("--jobs", type=int, default=6)
    ap.add_argument("--dir", default=os.path.join(HERE, "seeded"))
    ap.add_argument("--demo-only", action="store_true")
    a = ap.parse_args()
    jobs = []
    for name in sorted(os.listdir(a.dir)):
        sd = os.path.join(a.dir, name)
        if not os.path.isdir(sd) or not os.path.exists(os.path.join(sd, "patch.diff")):
            continue
        if a.only and not re.search(a.only, name):
            continue
        meta = {}
        if os.path.exists(os.path.join(sd, "meta.json")):
            with open(os.path.join(sd, "meta.json")) as f:
                meta = json.load(f)
        props = ALL if a.all_props else (a.props.split(",") if a.props else [meta.get("property", name[:3])])
        jobs.append((name, sd, props, a.tier, a.demo_only))
    with ThreadPoolExecutor(a.jobs) as ex:
        for lines in ex.map(one, jobs):
            print("\n".join(lines), flush=True)


if __name__ == "__main__":
    sys.exit(main())
