#!/usr/bin/env python3
"""Builds seeded/MATRIX.md from logs of tools/seeded.py (target-only run, then any number of
all-props runs) and records the confirmation (`confirmed`) in each change's meta.json."""
import json
import os
import re
import sys

HERE = os.path.dirname(os.path.dirname(os.path.abspath(__file__)))


def parse(path):
    res = {}
    demo = {}
    if not os.path.exists(path):
        return res, demo
    for ln in open(path):
        m = re.match(r"^(\S+): demo clean rc=(\S+) patched rc=(\S+)", ln)
        if m:
            demo[m.group(1)] = (m.group(2), m.group(3))
        m = re.match(r"^\s+(CAUGHT|MISSED|ERROR)\s+(C\d+) (\S+)\s*(.*)$", ln)
        if m:
            res.setdefault(m.group(3), {})[m.group(2)] = (m.group(1), m.group(4).strip())
    return res, demo


def main():
    target, demo = parse(sys.argv[1])
    allp, demo2 = {}, {}
    for extra in sys.argv[2:]:
        a, d2 = parse(extra)
        for k, v in a.items():
            allp.setdefault(k, {}).update(v)
        demo2.update(d2)
    demo.update({k: v for k, v in demo2.items() if k not in demo})
    out = ["# Seeded changes: catch matrix", "",
           "Each row is one independently written change kept under `seeded/<name>/` (patch.diff, demo.py, meta.json).",
           "`demo` = exit status of demo.py on the clean copy / on the patched copy (confirmed by `tools/seeded.py`).",
           "`target` = verdict of the quick check of the property the change was written against; `also caught by` = other quick checks that",
           "exit 1 on the patched copy (from the all-properties runs, made for the first three rounds only; `-` elsewhere means not run).", "",
           "| change | property | what was changed | needs | demo | target check | first bucket | also caught by |", "|---|---|---|---|---|---|---|---|"]
    for name in sorted(target):
        sd = os.path.join(HERE, "seeded", name)
        meta = {}
        try:
            meta = json.load(open(os.path.join(sd, "meta.json")))
        except Exception:  # noqa: BLE001
            pass
        prop = meta.get("property", name[:3])
        st, det = target[name].get(prop, ("?", ""))
        bucket = re.sub(r"^FAIL bucket=", "", det).split(" :: ")[0]
        others = sorted(p for p, (s, _) in allp.get(name, {}).items() if s == "CAUGHT" and p != prop)
        d = demo.get(name, ("?", "?"))
        if meta:
            meta.setdefault("breaks_property", prop)
            meta["confirmed"] = {
                "what_was_run": "tools/seeded.py: patch applied with `patch -p1` to a scratch copy of /repo's hugr-py, specification, scripts (never to /repo); "
                "demo.py run on a clean copy and on the patched copy; baseline tests (180) confirmed passing with the patch by the authoring agent in its own "
                "worktree; ./check <property> quick with VERIF_REPO=<patched copy>",
                "demo_exit_clean": d[0],
                "demo_exit_patched": d[1],
                "target_check": st,
                "first_bucket": det[:200],
            }
            with open(os.path.join(sd, "meta.json"), "w") as f:
                json.dump(meta, f, indent=1)
                f.write("\n")
        out.append(f"| {name} | {prop} | {meta.get('summary', '').replace('|', '/')[:160]} | {meta.get('needs', '').replace('|', '/')[:160]} | {d[0]}/{d[1]} | {st} | `{bucket[:90]}` | {', '.join(others) or '-'} |")
    n = len(target)
    c = sum(1 for name in target if target[name].get(json.load(open(os.path.join(HERE, 'seeded', name, 'meta.json'))).get('property', name[:3]), ('?',))[0] == 'CAUGHT')
    out += ["", f"{c} of {n} changes are caught by the quick check of their target property."]
    with open(os.path.join(HERE, "seeded", "MATRIX.md"), "w") as f:
        f.write("\n".join(out) + "\n")
    print(f"{c}/{n}")


if __name__ == "__main__":
    main()
