"""pytest plugin supplying the `snapshot` fixture (syrupy is not installed):
a value that compares equal to anything, so rendering snapshots are not judged."""
import pytest


class _AnySnapshot:
    def __eq__(self, other):
        return True

    def __ne__(self, other):
        return False


@pytest.fixture
def snapshot():
    return _AnySnapshot()
