#!/bin/bash
# Runs every quick check under several VERIF_SEED values; prints any non-zero exit.
cd "$(dirname "$0")/.." || exit 2
SEEDS="${*:-2 3 4 5}"
bad=0
for s in $SEEDS; do
  for p in C01 C02 C03 C04 C05 C06 C07 C08 C09 C10 C11 C12 C13 C14 C15 C16 C17 C18 C19 C20; do
    out=$(VERIF_SEED=$s ./check $p quick 2>&1); rc=$?
    echo "seed=$s $p rc=$rc $(echo "$out" | tail -1)"
    if [ $rc -ne 0 ]; then bad=1; echo "$out" | grep -E "FAIL|VIOLATION|HARNESS" | head -5; fi
  done
done
exit $bad
