"""Reference constant validator over the *serialized* value (R-const of DESIGN
2.3; hugr-core/src/ops/constant.rs, std extension constant definitions).

const_type(v)      : the type (encoded JSON) a serialized value claims
check_const(v)     : list of (clause, message) violations found inside v
"""

from __future__ import annotations

from vlib.ref import norm_enc

INT_EXT = "arithmetic.int.types"


def _opaque(ext, id_, args, bound):
    return {"t": "Opaque", "extension": ext, "id": id_, "args": args, "bound": bound}


def const_type(v):
    k = v.get("v")
    if k == "Sum":
        return v["typ"]
    if k == "Tuple":
        return {"t": "Sum", "s": "General", "rows": [[const_type(x) for x in v["vs"]]]}
    if k == "Extension":
        return v["typ"]
    if k == "Function":
        root = v["hugr"]["nodes"][0]
        if root.get("op") == "DFG":
            s = root["signature"]
            return {"t": "G", "input": s["input"], "output": s["output"], "runtime_reqs": s.get("runtime_reqs", [])}
        return None
    return None


def sum_rows(t):
    if t.get("t") != "Sum":
        return None
    if t.get("s") == "Unit":
        return [[] for _ in range(t["size"])]
    return t["rows"]


def bound_of(t):
    k = t.get("t")
    if k == "Q":
        return "A"
    if k in ("I", "G"):
        return "C"
    if k == "Sum":
        return "A" if any(bound_of(x) == "A" for r in sum_rows(t) for x in r) else "C"
    if k in ("V", "R"):
        return t["b"]
    if k in ("Opaque", "Alias"):
        return t["bound"]
    return "A"


def check_const(v, path="$"):
    out = []
    k = v.get("v")
    if k == "Sum":
        rows = sum_rows(v["typ"])
        if rows is None:
            return [("sum-type", f"{path}: typ is not a sum")]
        tag = v["tag"]
        if not (0 <= tag < len(rows)):
            return [("tag-range", f"{path}: tag {tag} not in 0..{len(rows) - 1}")]
        row = rows[tag]
        if len(row) != len(v["vs"]):
            out.append(("field-count", f"{path}: {len(v['vs'])} fields for a variant of {len(row)}"))
        else:
            for i, (x, t) in enumerate(zip(v["vs"], row)):
                ct = const_type(x)
                if ct is None or norm_enc(ct) != norm_enc(t):
                    out.append(("field-type", f"{path}.vs[{i}]: value of type {ct} in a field of type {t}"))
        for i, x in enumerate(v["vs"]):
            out += check_const(x, f"{path}.vs[{i}]")
    elif k == "Tuple":
        for i, x in enumerate(v["vs"]):
            out += check_const(x, f"{path}.vs[{i}]")
    elif k == "Extension":
        out += check_std_const(v, path)
    elif k == "Function":
        nodes = v["hugr"]["nodes"]
        if not nodes or nodes[0].get("op") != "DFG":
            out.append(("function-root", f"{path}: function constant must be DFG-rooted"))
    else:
        out.append(("unknown-value", f"{path}: {k}"))
    return out


def check_std_const(v, path):
    """Structural rules of the standard extension constants."""
    out = []
    c = v["value"]["c"]
    p = v["value"]["v"]
    typ = v["typ"]
    exts = v["extensions"]

    def need_ext(name):
        if name not in exts:
            out.append(("ext-missing", f"{path}: {c} does not list its defining extension {name}"))

    def elems(values, et, where):
        for i, x in enumerate(values):
            if not isinstance(x, dict) or "v" not in x:
                out.append(("elem-not-value", f"{where}[{i}] is not a complete value"))
                continue
            ct = const_type(x)
            if ct is None or norm_enc(ct) != norm_enc(et):
                out.append(("elem-type", f"{where}[{i}]: type {ct} != element type {et}"))
            out.extend(check_const(x, f"{where}[{i}]"))

    if c == "ConstInt":
        need_ext(INT_EXT)
        w = p["log_width"]
        if typ != _opaque(INT_EXT, "int", [{"tya": "BoundedNat", "n": w}], "C"):
            out.append(("int-type", f"{path}: type {typ} for log_width {w}"))
        if not (0 <= w <= 6):
            out.append(("int-width", f"{path}: width {w}"))
    elif c == "ConstF64":
        need_ext("arithmetic.float.types")
        if typ != _opaque("arithmetic.float.types", "float64", [], "C"):
            out.append(("float-type", f"{path}: {typ}"))
    elif c == "ConstString":
        need_ext("prelude")
        if typ != _opaque("prelude", "string", [], "C"):
            out.append(("string-type", f"{path}: {typ}"))
        if not isinstance(p.get("value"), str):
            out.append(("string-payload", path))
    elif c == "ArrayValue":
        need_ext("collections.array")
        et = p["typ"]
        want = _opaque("collections.array", "array", [{"tya": "BoundedNat", "n": len(p["values"])}, {"tya": "Type", "ty": et}], bound_of(et))
        if typ != want:
            out.append(("array-type", f"{path}: {typ} != {want}"))
        elems(p["values"], et, path + ".values")
    elif c == "ListValue":
        need_ext("collections.list")
        et = p["typ"]
        want = _opaque("collections.list", "List", [{"tya": "Type", "ty": et}], bound_of(et))
        if typ != want:
            out.append(("list-type", f"{path}: {typ} != {want}"))
        elems(p["values"], et, path + ".values")
    elif c == "StaticArrayValue":
        need_ext("collections.static_array")
        et = p["value"]["typ"]
        want = _opaque("collections.static_array", "static_array", [{"tya": "Type", "ty": et}], "C")
        if typ != want:
            out.append(("static-array-type", f"{path}: {typ} != {want}"))
        if not isinstance(p.get("name"), str):
            out.append(("static-array-name", path))
        elems(p["value"]["values"], et, path + ".value.values")
    return out
