"""C10 Extension definitions round-trip; bundled standard library matches the spec."""

from __future__ import annotations

import json
import os

from hypothesis import strategies as st

from vlib import extgen, ref
from vlib.runner import REPO, Fail, Sub, exc_fail

PROPERTY_ID = "C10"
RULE = (
    "generated sub-check: extension ASTs (name, semver, requirement set, 0..4 type defs with explicit / from-params "
    "bounds, 0..5 op defs: monomorphic, polymorphic, binary with or without signature, descriptions incl. non-ASCII, "
    "misc JSON, 0..3 values; no lowering functions). Oracle: first document == reference encoding (set-valued fields "
    "as sets); E2 = from_json(to_json(E)) has equal name/version/requirements and equal definitions field by field; "
    "E2.to_json() == E.to_json() as JSON values (lists as lists); every op def names its extension in the signature's "
    "runtime_reqs and reports E2 as owner (same for types and values). bundled sub-check (exhaustive): the 11 files in "
    "hugr/std/_json_defs are byte-identical to specification/std_extensions, each loads, and every typed helper "
    "denotes a definition that exists with fitting parameters. Non-trivial = extension with a polymorphic op def and "
    "a type def; distinct by canonical JSON."
)
ASSUMPTIONS = ["no lowering functions (FixedHugr) in generated extensions"]


def _norm_locus(p: str) -> str:
    import re

    return re.sub(r"\.(operations|types|values)\.[^.\[]+(\.[^.\[]+)?(?=\.(signature|misc|binary|description|bound|params|typed_value|name|extension|lower_funcs))", r".\1.*", p)


def check_ext(case) -> list[Fail]:
    return [Fail(f.clause, _norm_locus(f.locus), f.msg) for f in _check_ext(case)]


def _check_ext(case) -> list[Fail]:
    from hugr.ext import Extension

    a = case["ext"]
    f: list[Fail] = []
    e = extgen.mk_extension(a)
    j1 = e.to_json()
    d1 = json.loads(j1)
    want = extgen.enc_extension(a)
    n1 = extgen.norm_ext_doc(d1)
    if n1 != want:
        from vlib.props.c05 import first_diff

        f.append(Fail("enc-ref", first_diff(n1, want) or "?", f"got={json.dumps(n1)[:200]} want={json.dumps(want)[:200]}"))
    # the document must not depend on earlier serializations of the same object
    jp = extgen.mk_extension(a, probe=True).to_json()
    if json.loads(jp) != d1:
        from vlib.props.c05 import first_diff

        f.append(Fail("history", "serialized-between-additions:" + (first_diff(json.loads(jp), d1) or "?"), "document differs when to_json was also called between additions"))
    try:
        e2 = Extension.from_json(j1)
        j2 = e2.to_json()
    except Exception as ex:  # noqa: BLE001
        return f + [exc_fail("load", ex)]
    # two loads of one document are independent objects: changing the first does not show in the second
    try:
        import hugr.ext as hext
        import hugr.tys as htys

        e2.add_type_def(hext.TypeDef("verif.added", "", [], hext.ExplicitBound(htys.TypeBound.Copyable)))
        d3 = json.loads(Extension.from_json(j1).to_json())
        del e2.types["verif.added"]
        if d3 != json.loads(j2):
            from vlib.props.c05 import first_diff

            f.append(Fail("load", "second-load-sees-changes-to-the-first:" + (first_diff(d3, json.loads(j2)) or "?"), ""))
    except Exception as ex:  # noqa: BLE001
        f.append(exc_fail("load-twice", ex))
    d2 = json.loads(j2)
    if d2 != d1:
        from vlib.props.c05 import first_diff

        p = first_diff(d2, d1) or "?"
        if extgen.norm_ext_doc(d2) == n1:
            f.append(Fail("fixed-point", "order-of-set-valued-list:" + p, f"{json.dumps(d1)[:150]} -> {json.dumps(d2)[:150]}"))
        else:
            f.append(Fail("fixed-point", p, f"{json.dumps(d1)[:150]} -> {json.dumps(d2)[:150]}"))
    if (e2.name, str(e2.version), set(e2.runtime_reqs)) != (a["name"], extgen.version_str(a), set(a["reqs"])):
        f.append(Fail("fields", "header", f"{e2.name} {e2.version} {e2.runtime_reqs}"))
    for x, y in ((e, e2),):
        if list(x.types) != list(y.types) or list(x.operations) != list(y.operations) or list(x.values) != list(y.values):
            f.append(Fail("fields", "definition-names", "names/order differ"))
    for name, td in e.types.items():
        t2 = e2.types.get(name)
        if t2 is None or (t2.name, t2.description, t2.params, t2.bound) != (td.name, td.description, td.params, td.bound):
            f.append(Fail("fields", "typedef", f"{name}: {t2!r} vs {td!r}"[:300]))
        elif t2._extension is not e2 or t2.get_extension() is not e2:
            f.append(Fail("owner", "typedef", name))
    for name, od in e.operations.items():
        o2 = e2.operations.get(name)
        if o2 is None:
            f.append(Fail("fields", "opdef-missing", name))
            continue
        if (o2.name, o2.description, o2.misc, o2.signature.binary) != (od.name, od.description, od.misc, od.signature.binary):
            f.append(Fail("fields", "opdef", f"{name}: {o2!r} vs {od!r}"[:300]))
        p1, p2 = od.signature.poly_func, o2.signature.poly_func
        if (p1 is None) != (p2 is None):
            f.append(Fail("fields", "opdef-signature-presence", name))
        elif p1 is not None:
            def _enc(p):
                d = json.loads(p._to_serial().model_dump_json())
                d["body"]["runtime_reqs"] = sorted(d["body"]["runtime_reqs"])
                return d

            if _enc(p1) != _enc(p2):
                f.append(Fail("fields", "opdef-signature", f"{name}: {p2} vs {p1}"[:300]))
            for which, p in (("built", p1), ("loaded", p2)):
                if a["name"] not in p.body.runtime_reqs:
                    f.append(Fail("owner", f"opdef-reqs-{which}", f"{name}: {p.body.runtime_reqs}"))
        if o2._extension is not e2 or o2.get_extension() is not e2 or od.get_extension() is not e:
            f.append(Fail("owner", "opdef", name))
    for name, v in e.values.items():
        v2 = e2.values.get(name)
        if v2 is None or json.loads(v2.val._to_serial_root().model_dump_json()) != json.loads(v.val._to_serial_root().model_dump_json()):
            f.append(Fail("fields", "value", name))
        elif v2.get_extension() is not e2:
            f.append(Fail("owner", "value", name))
    return f


def check_readd(case) -> list[Fail]:
    """Definitions held by an extension name *that* extension and report it as owner, also when
    the definition objects were first added to another extension (multi-step history)."""
    from hugr.ext import Extension

    a, b = case["ext"], case["other"]
    ea = extgen.mk_extension(a)
    eb = extgen.mk_extension(dict(b, types=[], ops=[], values=[]))
    f: list[Fail] = []
    for od in list(ea.operations.values()):
        eb.add_op_def(od)
    for td in list(ea.types.values()):
        eb.add_type_def(td)
    for name, od in eb.operations.items():
        if od.get_extension() is not eb:
            f.append(Fail("owner", "re-added-opdef-owner", name))
        pf = od.signature.poly_func
        if pf is not None and eb.name not in pf.body.runtime_reqs:
            f.append(Fail("owner", "re-added-opdef-reqs", f"{name}: {pf.body.runtime_reqs} lacks {eb.name}"))
    for name, td in eb.types.items():
        if td.get_extension() is not eb:
            f.append(Fail("owner", "re-added-typedef-owner", name))
    try:
        j1 = eb.to_json()
        e2 = Extension.from_json(j1)
        if json.loads(e2.to_json()) != json.loads(j1):
            f.append(Fail("fixed-point", "re-added-definitions", ""))
    except Exception as ex:  # noqa: BLE001
        f.append(exc_fail("load", ex))
    return f


# ------------------------------------------------------------------ bundled std extensions

STD_FILES = [
    "arithmetic/conversions.json", "arithmetic/float.json", "arithmetic/float/types.json", "arithmetic/int.json",
    "arithmetic/int/types.json", "collections/array.json", "collections/list.json", "collections/static_array.json",
    "logic.json", "prelude.json", "ptr.json",
]


def arg_fits_param(arg, param) -> bool:
    """Reference check on encoded JSON: does a type argument fit a parameter?"""
    tp = param["tp"]
    ta = arg["tya"]
    if ta == "Variable":
        return arg["cached_decl"] == param
    if tp == "Type":
        if ta != "Type":
            return False
        from vlib.refconst import bound_of

        return param["b"] == "A" or bound_of(arg["ty"]) == "C"
    if tp == "BoundedNat":
        return ta == "BoundedNat" and (param["bound"] is None or arg["n"] < param["bound"])
    if tp == "String":
        return ta == "String"
    if tp == "Extensions":
        return ta == "Extensions"
    if tp == "List":
        return ta == "Sequence" and all(arg_fits_param(e, param["param"]) for e in arg["elems"])
    if tp == "Tuple":
        return ta == "Sequence" and len(arg["elems"]) == len(param["params"]) and all(arg_fits_param(e, p) for e, p in zip(arg["elems"], param["params"]))
    return False


def check_bundled(case) -> list[Fail]:
    from hugr.ext import Extension

    rel = case["file"]
    spec = os.path.join(REPO, "specification", "std_extensions", rel)
    bundled = os.path.join(REPO, "hugr-py", "src", "hugr", "std", "_json_defs", rel)
    f: list[Fail] = []
    try:
        with open(spec, "rb") as fh:
            sb = fh.read()
        with open(bundled, "rb") as fh:
            bb = fh.read()
    except OSError as e:
        return [Fail("bundled", "missing-file", f"{rel}: {e}")]
    if sb != bb:
        f.append(Fail("bundled", "bytes-differ", rel))
    try:
        e = Extension.from_json(bb.decode())
    except Exception as ex:  # noqa: BLE001
        return f + [exc_fail("bundled-load", ex)]
    d = json.loads(bb)
    if e.name != d["name"] or set(e.types) != set(d["types"]) or set(e.operations) != set(d["operations"]) or set(e.values) != set(d["values"]):
        f.append(Fail("bundled", "loaded-content", rel))
    return f


def _spec(rel):
    with open(os.path.join(REPO, "specification", "std_extensions", rel)) as fh:
        return json.load(fh)


def check_helper(case) -> list[Fail]:
    """Typed helpers denote definitions that exist in the spec files with fitting parameters."""
    import hugr.ops as ops
    import hugr.tys as tys
    import hugr.val as val
    from hugr.hugr.node_port import Node

    h = case["helper"]
    f: list[Fail] = []

    def dump(m):
        return json.loads(m.model_dump_json())

    def check_type(ty):
        e = dump(ty._to_serial_root())
        if e.get("t") != "Opaque":
            return
        files = {json.load(open(os.path.join(REPO, "specification", "std_extensions", r)))["name"]: r for r in STD_FILES}
        if e["extension"] not in files:
            f.append(Fail("helper", f"{h}:extension-unknown", e["extension"]))
            return
        spec = _spec(files[e["extension"]])
        td = spec["types"].get(e["id"])
        if td is None:
            f.append(Fail("helper", f"{h}:type-undefined", f"{e['extension']}.{e['id']}"))
            return
        if len(td["params"]) != len(e["args"]) or not all(arg_fits_param(a, p) for a, p in zip(e["args"], td["params"])):
            f.append(Fail("helper", f"{h}:type-args", f"{e['args']} vs {td['params']}"[:300]))
        for a in e["args"]:
            if a["tya"] == "Type":
                pass

    def check_op(op):
        e = dump(op._to_serial(Node(0)))
        files = {_spec(r)["name"]: r for r in STD_FILES}
        if e["extension"] not in files:
            f.append(Fail("helper", f"{h}:extension-unknown", e["extension"]))
            return
        od = _spec(files[e["extension"]])["operations"].get(e["name"])
        if od is None:
            f.append(Fail("helper", f"{h}:op-undefined", f"{e['extension']}.{e['name']}"))
            return
        ps = od["signature"]["params"] if od.get("signature") else []
        if len(ps) != len(e["args"]) or not all(arg_fits_param(a, p) for a, p in zip(e["args"], ps)):
            f.append(Fail("helper", f"{h}:op-args", f"{e['args']} vs {ps}"[:300]))

    def check_const(v):
        e = dump(v._to_serial_root())
        from vlib import refconst

        for clause, msg in refconst.check_const(e):
            f.append(Fail("helper", f"{h}:{clause}", msg[:200]))
        for x in e["extensions"]:
            if x not in {_spec(r)["name"] for r in STD_FILES}:
                f.append(Fail("helper", f"{h}:const-extension-unknown", x))
        check_type(v.type_())

    kind = h.split(":")[0]
    if kind == "int_t":
        from hugr.std.int import IntVal, int_t

        w = case["w"]
        check_type(int_t(w))
        check_const(IntVal(case.get("v", 1) % (2 ** (2**w)), w))
    elif kind == "float":
        from hugr.std.float import FLOAT_T, FloatVal

        check_type(FLOAT_T)
        check_const(FloatVal(0.5))
    elif kind == "string":
        from hugr.std.prelude import STRING_T, StringVal

        check_type(STRING_T)
        check_const(StringVal("ü"))
    elif kind == "array":
        from hugr.std.collections.array import Array, ArrayVal

        check_type(Array(tys.Bool, case["w"]))
        check_type(Array(tys.Qubit, case["w"]))
        check_const(ArrayVal([val.TRUE] * case["w"], tys.Bool))
    elif kind == "list":
        from hugr.std.collections.list import List, ListVal

        check_type(List(tys.Qubit))
        check_const(ListVal([val.TRUE] * case["w"], tys.Bool))
    elif kind == "sarray":
        from hugr.std.collections.static_array import StaticArray, StaticArrayVal

        check_type(StaticArray(tys.Bool))
        check_const(StaticArrayVal([val.TRUE] * case["w"], tys.Bool, "n"))
    elif kind == "not":
        from hugr.std.logic import Not

        check_op(Not)
    elif kind == "divmod":
        from hugr.std.int import _DivModDef

        check_op(_DivModDef(case["w"]))
    elif kind == "tuple-ops":
        rows = [[], [tys.Bool], [tys.Bool, tys.Qubit]][case["w"] % 3]
        check_op(ops.MakeTuple(rows))
        check_op(ops.UnpackTuple(rows))
        check_op(ops.Noop(tys.Qubit))
    return f


def enum_bundled(tier):
    for r in STD_FILES:
        yield {"file": r}


def enum_helpers(tier):
    for w in range(7):
        yield {"helper": "int_t", "w": w, "v": 12345678901234567890}
        yield {"helper": "divmod", "w": w}
        yield {"helper": "array", "w": w}
        yield {"helper": "list", "w": w}
        yield {"helper": "sarray", "w": w}
        yield {"helper": "tuple-ops", "w": w}
    yield {"helper": "float"}
    yield {"helper": "string"}
    yield {"helper": "not"}


def nt_ext(case):
    a = case["ext"]
    return bool(a["types"]) and any(o["params"] for o in a["ops"])


def cls_ext(case):
    a = case["ext"]
    out = []
    if any(o["params"] is None for o in a["ops"]):
        out.append("binary-without-signature")
    if any(o["params"] for o in a["ops"]):
        out.append("polymorphic-op")
    if any(o.get("reqs") and len(o["reqs"]) >= 2 for o in a["ops"]):
        out.append("op-with>=2-reqs")
    if a["values"]:
        out.append("has-values")
    if any(t["bound"]["b"] == "F" for t in a["types"]):
        out.append("from-params-type")
    return out


SUBS = [
    Sub("generated", check_ext, strategy=lambda tier: extgen.extensions().map(lambda e: {"ext": e}), nontrivial=nt_ext, classes=cls_ext, n_quick=400, n_thorough=3000),
    Sub("re-added", check_readd, strategy=lambda tier: st.tuples(extgen.extensions(min_ops=1), extgen.extensions()).filter(lambda t: t[0]["name"] != t[1]["name"]).map(lambda t: {"ext": t[0], "other": t[1]}),
        nontrivial=lambda c: any(o["params"] is not None for o in c["ext"]["ops"]), n_quick=150, n_thorough=800),
    Sub("bundled", check_bundled, enumerate=enum_bundled, nontrivial=lambda c: True, exhaustive=True, shardable=False),
    Sub("helpers", check_helper, enumerate=enum_helpers, nontrivial=lambda c: True, exhaustive=True, shardable=False),
]


# ------------------------------------------------------------------ other hash seeds
# The order of a signature's runtime_reqs used to depend on set iteration order, i.e. on
# PYTHONHASHSEED.  The main process pins PYTHONHASHSEED=0, so the fixed-point clause is
# re-run in worker processes under other hash seeds.


def _worker(n: int, seed: int) -> None:
    import hypothesis
    from hypothesis import HealthCheck, Phase, given, settings

    out = []

    @hypothesis.seed(seed)
    @settings(max_examples=n, database=None, deadline=None, suppress_health_check=list(HealthCheck), phases=[Phase.generate])
    @given(extgen.extensions(min_ops=1))
    def t(e):
        for f in check_ext({"ext": e}):
            if len(out) < 5:
                out.append([f.clause, f.locus, f.msg[:200]])

    t()
    print("WORKER-RESULT " + json.dumps(out))


def check_hashseed(case) -> list[Fail]:
    import subprocess
    import sys

    from vlib.runner import HarnessError, derive_seed

    env = dict(os.environ, PYTHONHASHSEED=str(case["hashseed"]))
    seed = derive_seed(os.environ.get("VERIF_SEED", "1"), "C10", "hashseed", case["hashseed"])
    r = subprocess.run([sys.executable, "-c", f"from vlib.props import c10; c10._worker({case['n']}, {seed})"], env=env, capture_output=True, text=True, timeout=900)
    lines = [l for l in r.stdout.splitlines() if l.startswith("WORKER-RESULT ")]
    if r.returncode != 0 or not lines:
        raise HarnessError(f"hash-seed worker failed: {r.stderr[-400:]}")
    return [Fail(c, f"{l}|other-hashseed", m) for c, l, m in json.loads(lines[0][len("WORKER-RESULT "):])]


def enum_hashseeds(tier):
    for hs in ([1, 3] if tier == "quick" else [1, 2, 3, 4, 5, 7]):
        yield {"hashseed": hs, "n": 150 if tier == "quick" else 600}


SUBS.append(Sub("hashseeds", check_hashseed, enumerate=enum_hashseeds, nontrivial=lambda c: True, classes=lambda c: [f"hashseed={c['hashseed']}"], shardable=True))
