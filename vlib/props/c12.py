"""C12 The model export is well scoped and faithful to the HUGR."""

from __future__ import annotations

import json
import os
import re
from collections import Counter

from hypothesis import strategies as st

from vlib import proggen, refval, store
from vlib.props.c01 import run_program
from vlib.runner import REPO, Fail, InvalidCase, Sub, exc_fail

PROPERTY_ID = "C12"
RULE = (
    "case = valid module-rooted HUGR from a generated builder program (functions called more than once, constants "
    "loaded more than once, explicit and implied order edges, nested conditionals / loops / CFGs, polymorphic "
    "functions, metadata). Oracle = exporter contract (export.rs / import.rs) checked by walking HUGR and model in "
    "lock-step: region kinds and child order mirror the hierarchy (Input/Output -> sources/targets, Const inlined, "
    "cases / blocks in order); len(inputs/outputs) == value ports of the reference signature (1 / #successors for "
    "blocks); over all listed ports 'same link name' <=> 'same connected component of HUGR links', each name with <= 1 "
    "producer or <= 1 consumer; every call / function load applies the symbol of the exported definition / "
    "declaration of the linked function node; each order edge between non-I/O siblings => region order hint with "
    "matching keys on both nodes; node metadata => compat.meta_json entries; CFG region source = link of the entry "
    "block's control input. classes sub-check (exhaustive): every model class has exactly the attributes "
    "hugr-model/src/v0/ast/python.rs reads. Non-trivial = module with a call and an order edge, constant or CFG; "
    "distinct by canonical JSON."
)
ASSUMPTIONS = ["term-level translation of types/values is only checked for raising, not for content"]


def lit(x):
    import hugr.model as model

    return x.value if isinstance(x, model.Literal) else None


def value_port_counts(h, n):
    s = refval.jsig(store.enc_op_of(h, n))
    if s["other_out"] == "cf" or h[n].op.__class__.__name__ == "DataflowBlock":
        return 1, s["n_cf_out"]
    return len(s["ins"]), len(s["outs"])


class Walker:
    def __init__(self, h):
        import hugr.ops as ops

        self.h = h
        self.ops = ops
        self.f: list[Fail] = []
        self.listed = []  # (hugr port, name, role)
        self.symbol_of = {}  # hugr func node idx -> symbol name
        self.applied = []  # (hugr node idx, applied symbol name, linked func idx)
        self.keys = {}  # hugr node idx -> order key literal
        self.nodes_seen = 0

    def fail(self, clause, locus, msg=""):
        if len(self.f) < 10:
            self.f.append(Fail(clause, locus, msg[:300]))

    def kids(self, n, drop_io=True):
        ops = self.ops
        out = []
        for c in self.h.children(n):
            op = self.h[c].op
            if isinstance(op, ops.Const):
                continue
            if drop_io and isinstance(op, ops.Input | ops.Output):
                continue
            out.append(c)
        return out

    def region_children(self, region, hkids, where):
        if len(region.children) != len(hkids):
            self.fail("structure", f"{where}:child-count", f"{len(region.children)} model children for {len(hkids)} HUGR children")
            return
        for mn, hn in zip(region.children, hkids):
            self.node(mn, hn)

    def dfg_region(self, region, n, where):
        import hugr.model as model
        from hugr.hugr.node_port import InPort, OutPort

        ops, h = self.ops, self.h
        if region.kind != model.RegionKind.DATA_FLOW:
            self.fail("structure", f"{where}:region-kind", str(region.kind))
        ch = h.children(n)
        inp = next((c for c in ch if isinstance(h[c].op, ops.Input)), None)
        out = next((c for c in ch if isinstance(h[c].op, ops.Output)), None)
        if inp is not None:
            want = len(h[inp].op.types)
            if len(region.sources) != want:
                self.fail("ports", f"{where}:region-sources", f"{len(region.sources)} sources for {want} inputs")
            for i, nm in enumerate(region.sources[:want]):
                self.listed.append((OutPort(inp, i), nm, "producer"))
        if out is not None:
            want = len(h[out].op.types)
            if len(region.targets) != want:
                self.fail("ports", f"{where}:region-targets", f"{len(region.targets)} targets for {want} outputs")
            for i, nm in enumerate(region.targets[:want]):
                self.listed.append((InPort(out, i), nm, "consumer"))
        hk = self.kids(n)
        self.region_children(region, hk, where)
        # order hints
        hints = Counter()
        for t in region.meta:
            if isinstance(t, model.Apply) and t.symbol == "core.order_hint.order" and len(t.args) == 2:
                hints[(lit(t.args[0]), lit(t.args[1]))] += 1
        key_of_child = {self.keys.get(c.idx) for c in hk if self.keys.get(c.idx) is not None}
        want_hints = set()
        for a in hk:
            for b in h.outgoing_order_links(a):
                if not isinstance(h[b].op, ops.Output | ops.Input) and self.keys.get(a.idx) is not None and self.keys.get(b.idx) is not None:
                    want_hints.add((self.keys[a.idx], self.keys[b.idx]))
        for hint in hints:
            if hint not in want_hints:
                self.fail("order-hint", f"{where}:hint-without-order-edge", f"region hint {hint}; keys of children {sorted(map(str, key_of_child))}; order edges between keyed siblings {sorted(want_hints)}")
                break
        for a in hk:
            for b in h.outgoing_order_links(a):
                if isinstance(h[b].op, ops.Output | ops.Input):
                    continue
                ka, kb = self.keys.get(a.idx), self.keys.get(b.idx)
                if ka is None or kb is None:
                    self.fail("order-hint", f"{where}:missing-key", f"order edge {a.idx}->{b.idx}: keys {ka},{kb}")
                elif hints[(ka, kb)] < 1:
                    self.fail("order-hint", f"{where}:missing-region-hint", f"order edge {a.idx}->{b.idx} (keys {ka},{kb}) not among region hints {sorted(hints)}")

    def node(self, mn, hn):
        import hugr.model as model
        from hugr.hugr.node_port import InPort, OutPort

        ops, h = self.ops, self.h
        self.nodes_seen += 1
        op = h[hn].op
        kind = type(op).__name__
        where = "ExtOp" if isinstance(op, ops.AsExtOp) else "Tag" if isinstance(op, ops.Tag) else kind
        want_cls = {
            "DFG": model.Dfg, "Conditional": model.Conditional, "TailLoop": model.TailLoop, "FuncDefn": model.DefineFunc, "FuncDecl": model.DeclareFunc,
            "AliasDecl": model.DeclareAlias, "AliasDefn": model.DefineAlias, "CFG": model.Cfg, "DataflowBlock": model.Block,
        }.get(kind, model.CustomOp)
        if not isinstance(mn.operation, want_cls):
            self.fail("structure", f"{where}:operation-class", f"{type(mn.operation).__name__}")
            return
        # ports
        if kind not in ("FuncDefn", "FuncDecl", "AliasDecl", "AliasDefn"):
            ni, no = value_port_counts(h, hn)
            if len(mn.inputs) != ni:
                self.fail("ports", f"{where}:inputs", f"node {hn.idx}: {len(mn.inputs)} inputs listed, signature has {ni}")
            if len(mn.outputs) != no:
                self.fail("ports", f"{where}:outputs", f"node {hn.idx}: {len(mn.outputs)} outputs listed, signature has {no}")
            for i, nm in enumerate(list(mn.inputs)[:ni]):
                self.listed.append((InPort(hn, i), nm, "consumer"))
            for i, nm in enumerate(list(mn.outputs)[:no]):
                self.listed.append((OutPort(hn, i), nm, "producer"))
        elif mn.inputs or mn.outputs:
            self.fail("ports", f"{where}:has-ports", "")
        # metadata and order key
        metas = {}
        for t in mn.meta:
            if isinstance(t, model.Apply) and t.symbol == "compat.meta_json" and len(t.args) == 2:
                try:
                    metas[lit(t.args[0])] = json.loads(lit(t.args[1]))
                except (TypeError, ValueError):
                    metas[lit(t.args[0])] = ("unparsable", lit(t.args[1]))
            if isinstance(t, model.Apply) and t.symbol == "core.order_hint.key" and len(t.args) == 1:
                self.keys[hn.idx] = lit(t.args[0])
        want_meta = json.loads(json.dumps(h[hn].metadata))
        # as JSON values: true, 1 and 1.0 are three different values (Python's == would identify them)
        if json.dumps(metas, sort_keys=True) != json.dumps(want_meta, sort_keys=True):
            self.fail("metadata", where, f"node {hn.idx}: {metas} vs {want_meta}")
        # symbols
        if kind in ("FuncDefn", "FuncDecl"):
            self.symbol_of[hn.idx] = mn.operation.symbol.name
            # the symbol declares exactly the function's parameters and constrains exactly the copyable type
            # parameters (well scoped: a constraint names a parameter of this symbol, once)
            import hugr.tys as htys

            sym = mn.operation.symbol
            ps = list(op.params) if kind == "FuncDefn" else list(op.signature.params)
            names = [p.name for p in sym.params]
            if names != [str(i) for i in range(len(ps))]:
                self.fail("symbols", f"{kind}:parameters", f"node {hn.idx}: declared {names} for {len(ps)} parameters")
            want_c = sorted(str(i) for i, p in enumerate(ps) if isinstance(p, htys.TypeTypeParam) and p.bound == htys.TypeBound.Copyable)
            got_c = []
            for t in sym.constraints:
                if isinstance(t, model.Apply) and t.symbol == "core.nonlinear" and len(t.args) == 1 and isinstance(t.args[0], model.Var):
                    got_c.append(t.args[0].name)
                else:
                    got_c.append(repr(t))
            if sorted(got_c) != want_c:
                self.fail("symbols", f"{kind}:constraints", f"node {hn.idx}: nonlinear constraints on {sorted(got_c)}, copyable type parameters {want_c}")
        if kind in ("Call", "LoadFunc"):
            term = mn.operation.operation
            fn = None
            if isinstance(term, model.Apply) and term.args and isinstance(term.args[-1], model.Apply):
                fn = term.args[-1].symbol
            off = len(op.instantiation.input) if kind == "Call" else 0
            srcs = [p.node.idx for p in h.linked_ports(InPort(hn, off))]
            self.applied.append((hn.idx, fn, srcs[0] if srcs else None))
        # regions
        if kind in ("DFG", "TailLoop", "FuncDefn", "DataflowBlock"):
            if len(mn.regions) != 1:
                self.fail("structure", f"{where}:region-count", str(len(mn.regions)))
            else:
                self.dfg_region(mn.regions[0], hn, where)
        elif kind == "Conditional":
            cases = [c for c in h.children(hn)]
            if len(mn.regions) != len(cases):
                self.fail("structure", "Conditional:region-count", f"{len(mn.regions)} vs {len(cases)} cases")
            else:
                for reg, c in zip(mn.regions, cases):
                    self.dfg_region(reg, c, "Case")
        elif kind == "CFG":
            if len(mn.regions) != 1:
                self.fail("structure", "CFG:region-count", str(len(mn.regions)))
                return
            reg = mn.regions[0]
            if reg.kind != model.RegionKind.CONTROL_FLOW:
                self.fail("structure", "CFG:region-kind", str(reg.kind))
            blocks = [c for c in h.children(hn) if isinstance(h[c].op, ops.DataflowBlock)]
            exits = [c for c in h.children(hn) if isinstance(h[c].op, ops.ExitBlock)]
            if len(reg.sources) != 1 or len(reg.targets) != 1:
                self.fail("ports", "CFG:region-source-target", f"{len(reg.sources)} sources, {len(reg.targets)} targets")
            else:
                self.listed.append((InPort(blocks[0], 0), reg.sources[0], "producer"))
                self.listed.append((InPort(exits[0], 0), reg.targets[0], "consumer"))
            self.region_children(reg, blocks, "CFG")
        elif mn.regions:
            self.fail("structure", f"{where}:unexpected-regions", str(len(mn.regions)))

    def finish(self):
        h = self.h
        # link names vs connected components of HUGR links
        parent = {}

        def find(x):
            parent.setdefault(x, x)
            while parent[x] != x:
                parent[x] = parent[parent[x]]
                x = parent[x]
            return x

        for s, d in h.links():
            parent[find(s)] = find(d)
        by_name, by_comp = {}, {}
        for port, nm, role in self.listed:
            by_name.setdefault(nm, set()).add(find(port))
            by_comp.setdefault(find(port), set()).add(nm)
        for nm, comps in by_name.items():
            if len(comps) > 1:
                self.fail("link-names", "name-shared-by-unconnected-ports", f"link {nm!r}")
                break
        for comp, names in by_comp.items():
            if len(names) > 1:
                self.fail("link-names", "connected-ports-with-different-names", f"{sorted(names)[:4]}")
                break
        roles = {}
        for port, nm, role in self.listed:
            roles.setdefault(nm, Counter())[("producer" if role == "producer" else "consumer")] += 1
        # the entry port of a CFG region is listed twice by design (region source and block input)
        for nm, c in roles.items():
            if c["producer"] > 1 and c["consumer"] > 1:
                self.fail("link-names", "many-producers-and-consumers", f"link {nm!r}: {dict(c)}")
                break
        for idx, fn, src in self.applied:
            if src is None:
                self.fail("symbols", "call-without-function-link", f"node {idx}")
            elif fn != self.symbol_of.get(src):
                self.fail("symbols", "applied-symbol-is-not-the-linked-definition", f"node {idx} applies {fn!r}; linked function node {src} is exported as {self.symbol_of.get(src)!r}")


def check(case) -> list[Fail]:
    import hugr.model as model

    r, fails = run_program(case)
    if r is None:
        raise InvalidCase("program does not build")
    h = r.hugr
    # metadata can also be given later, by assigning a new dictionary to the node's data (every third node
    # with metadata gets an equal new dictionary, every seventh node a fresh one)
    for n in list(h):
        d = h[n]
        if d.metadata and n.idx % 3 == 0:
            d.metadata = dict(d.metadata)
        elif not d.metadata and n.idx % 7 == 3:
            d.metadata = {"assigned-later": n.idx % 2 == 0}
    before = store.snapshot(h)
    try:
        m = h.to_model()
    except Exception as e:  # noqa: BLE001
        return [exc_fail("export-raises", e)]
    w = Walker(h)
    if not isinstance(m, model.Module) or m.root.kind != model.RegionKind.MODULE:
        return [Fail("structure", "module-region", "")]
    w.region_children(m.root, w.kids(h.root, drop_io=False), "Module")
    w.finish()
    f = w.f
    if store.snapshot(h) != before:
        f.append(Fail("export", "hugr-modified", ""))
    f += class_instances(m)
    return f[:8]


# ------------------------------------------------------------------ model classes vs. the Rust binding


def rust_attr_table():
    path = os.path.join(REPO, "hugr-model", "src", "v0", "ast", "python.rs")
    table: dict[str, set] = {}
    cur_impl = None
    cur = None
    enum_impl = False
    with open(path) as f:
        for ln in f:
            m = re.search(r"impl<'py> pyo3::FromPyObject<'py> for (\w+)", ln)
            if m:
                cur_impl = m.group(1)
                enum_impl = cur_impl in ("Term", "Operation", "SeqPart")
                cur = None if enum_impl else cur_impl
                if cur:
                    table.setdefault(cur, set())
                continue
            if re.search(r"impl<'py> pyo3::IntoPyObject", ln) or re.search(r"^impl", ln):
                cur_impl, cur = None, None
                continue
            if cur_impl is None:
                continue
            m = re.search(r'^\s*"(\w+)" =>', ln)
            if m and enum_impl:
                cur = m.group(1)
                table.setdefault(cur, set())
            for a in re.findall(r'getattr\("(\w+)"\)', ln):
                if cur_impl == "SeqPart":
                    table.setdefault("Splice", set()).add(a)
                elif cur:
                    table[cur].add(a)
    return table


def check_class(case) -> list[Fail]:
    import dataclasses

    import hugr.model as model

    name = case["class"]
    table = rust_attr_table()
    if name not in table:
        return [Fail("classes", "not-read-by-binding", name)]
    cls = getattr(model, name, None)
    if cls is None:
        return [Fail("classes", "missing-class", name)]
    fields = {f.name for f in dataclasses.fields(cls)} if dataclasses.is_dataclass(cls) else set()
    if fields != table[name]:
        return [Fail("classes", f"attributes:{name}", f"python {sorted(fields)} vs rust {sorted(table[name])}")]
    return []


def enum_classes(tier):
    for name in sorted(rust_attr_table()):
        yield {"class": name}


def class_instances(m) -> list[Fail]:
    """Every object of the exported tree is an instance of a model class the binding knows,
    with exactly the attributes it reads."""
    import dataclasses

    import hugr.model as model

    table = rust_attr_table()
    bad = []
    seen = 0
    stack = [m]
    while stack and not bad and seen < 20000:
        x = stack.pop()
        seen += 1
        if isinstance(x, str | int | float | bytes | bool) or x is None or isinstance(x, model.RegionKind):
            continue
        if isinstance(x, list | tuple):
            stack += list(x)
            continue
        name = type(x).__name__
        if name not in table or not dataclasses.is_dataclass(x):
            bad.append(Fail("classes", "unknown-object-in-tree", name))
            break
        for a in table[name]:
            if not hasattr(x, a):
                bad.append(Fail("classes", f"missing-attribute:{name}.{a}", ""))
                break
            stack.append(getattr(x, a))
    return bad


NT_A = {"call", "load-function"}
NT_B = {"explicit-order-edge", "ext-edge", "load-const", "cfg", "const-loaded-again"}


def nontrivial(case):
    cl = set(case.get("classes", []))
    return bool(cl & NT_A) and bool(cl & NT_B)


def strategy(tier):
    return proggen.programs(size=16 if tier == "quick" else 28, max_depth=2, roots=("module",), call_bias=False)


def strategy_calls(tier):
    return proggen.programs(size=18 if tier == "quick" else 28, max_depth=2, roots=("module",), call_bias=True)


CL = lambda c: [x for x in c.get("classes", []) if x in NT_A | NT_B | {"metadata", "function-called-twice", "polymorphic-function", "conditional", "tail-loop", "nested-dfg", "dom-edge"}]  # noqa: E731

def _unordered(case):
    try:
        r, _ = run_program(case)
        h = r.hugr
        return any([c.idx for c in h.children(n)] != sorted(c.idx for c in h.children(n)) for n in h)
    except Exception:  # noqa: BLE001
        return False


SUBS = [
    # the same programs with index churn before every container, constant and block: children whose index order
    # differs from their child order (cases of a conditional, blocks of a CFG, functions of the module)
    Sub("export-after-index-churn", check, strategy=lambda tier: strategy(tier).map(lambda p: dict(p, churn=True)), nontrivial=_unordered,
        classes=lambda c: CL(c) + (["children-not-in-index-order"] if _unordered(c) else []), n_quick=120, n_thorough=800, sample_ok=lambda c: len(c["events"]) <= 12),
    Sub("export", check, strategy=strategy, nontrivial=nontrivial, classes=CL, n_quick=150, n_thorough=1000, sample_ok=lambda c: len(c["events"]) <= 12),
    Sub("export-calls", check, strategy=strategy_calls, nontrivial=nontrivial, classes=CL, n_quick=150, n_thorough=1000, sample_ok=lambda c: len(c["events"]) <= 12),
    Sub("classes", check_class, enumerate=enum_classes, nontrivial=lambda c: True, exhaustive=True, shardable=False),
]
