"""C20 Rendering draws every node, port and link of the HUGR exactly once."""

from __future__ import annotations

import html
import re
from collections import Counter

from hypothesis import strategies as st

from vlib import proggen, store
from vlib.props.c01 import run_program
from vlib.runner import Fail, InvalidCase, Sub, exc_fail

PROPERTY_ID = "C20"
RULE = (
    "case = HUGR from a generated builder program (order, constant, function and control-flow edges, metadata, nested "
    "containers) x render configuration (the three named palettes or a generated palette, qualify_op_name F/T). Oracle: "
    "an independent tolerant parser of Digraph.source: one node statement per HUGR node whose label carries the "
    "display name and exactly the PORT cells in.i / out.i for i < num_in/out_ports; one cluster<idx> per node with "
    "children, nested exactly as the hierarchy; edge statements == the links reported by linked_ports of every out port, as a multiset with endpoints "
    "idx:out.offset -> idx:in.offset (order links at offset -1); value edges labelled str(type); the HUGR's observation "
    "is unchanged; a second configuration yields the same parsed structure (only colours and op-name prefixes differ). "
    "render-after-edits sub-check: the same over HUGRs produced by raw add/delete histories with index reuse (child "
    "order differs from index order), where rendering must in particular leave the child order alone. "
    "store-dot sub-check: the file written by Hugr.store_dot equals render_dot's source and Graphviz itself (dot -Tplain) "
    "accepts it and reads as many nodes and edges as the HUGR has nodes and links (names and metadata with <, >, & and "
    "control characters included). "
    "Non-trivial = HUGR with a container and an order / static / control-flow edge (programs) / some parent whose "
    "children are not in index order (edits); distinct by canonical JSON."
)
ASSUMPTIONS = [
    "generated names / metadata do not contain the node-statement terminator '> shape=plain]' (statement template used by the parser)",
    "Graphviz's acceptance of the DOT text is judged by the store-dot sub-check only (50 programs per quick run); its warnings about the port names of order edges are not judged",
]

NODE_START = re.compile(r"^\s*(\d+) \[label=<\s*$")
NODE_END = re.compile(r"^\s*> shape=plain\]\s*$")
CLUSTER = re.compile(r"^\s*subgraph cluster(\d+) \{\s*$")
CLOSE = re.compile(r"^\s*\}\s*$")
EDGE = re.compile(r'^\s*(\d+):"out\.(-?\d+)" -> (\d+):"in\.(-?\d+)" \[label=(.*)$')
PORT = re.compile(r'PORT="(in|out)\.(-?\d+)"')


_NOT_XML = re.compile("[\x00-\x08\x0b\x0c\x0e-\x1f\ufffe\uffff]")


def parse_label_attr(rest: str):
    """Candidate readings of the label attribute value at the start of `rest`: a quoted string
    (graphviz escapes only double quotes), an HTML-like <...> string or a bare id."""
    if rest.startswith('"'):
        raw = []
        i = 1
        while i < len(rest):
            ch = rest[i]
            if ch == "\\" and i + 1 < len(rest) and rest[i + 1] == '"':
                raw.append('\\"')
                i += 2
                continue
            if ch == '"':
                break
            raw.append(ch)
            i += 1
        raw = "".join(raw)
        return {raw, raw.replace('\\"', '"')}
    if rest.startswith("<"):
        # an HTML-like string: graphviz writes any text of the form <...> unquoted, whatever is in between
        # (a function type printed as "<a>, b -> c<d>" contains several '>'): every prefix ending in '>' is a
        # candidate reading
        cands = {rest[: i + 1] for i, ch in enumerate(rest) if ch == ">"}
        return set(sorted(cands, key=len)[:60]) or {rest}
    return {rest.split(" ", 1)[0]}


def parse(src: str):
    nodes = {}  # idx -> (label text, cluster stack at the statement)
    clusters = {}  # idx -> parent cluster idx (or None)
    edges = Counter()
    edge_labels = {}
    stack = []
    dup = []
    lines = src.split("\n")
    i = 0
    while i < len(lines):
        ln = lines[i]
        m = NODE_START.match(ln)
        if m:
            idx = int(m.group(1))
            j = i + 1
            buf = []
            while j < len(lines) and not NODE_END.match(lines[j]):
                buf.append(lines[j])
                j += 1
            if idx in nodes:
                dup.append(idx)
            nodes[idx] = ("\n".join(buf), list(stack))
            i = j + 1
            continue
        m = CLUSTER.match(ln)
        if m:
            c = int(m.group(1))
            if c in clusters:
                dup.append(("cluster", c))
            clusters[c] = stack[-1] if stack else None
            stack.append(c)
            i += 1
            continue
        if CLOSE.match(ln) and stack:
            stack.pop()
            i += 1
            continue
        m = EDGE.match(ln)
        if m:
            key = (int(m.group(1)), int(m.group(2)), int(m.group(3)), int(m.group(4)))
            rest = m.group(5)
            # a quoted label may contain newlines: join lines until the closing quote
            if rest.startswith('"'):
                def closed(txt):
                    k = 1
                    while k < len(txt):
                        if txt[k] == "\\" and k + 1 < len(txt) and txt[k + 1] == '"':
                            k += 2
                            continue
                        if txt[k] == '"':
                            return True
                        k += 1
                    return False

                while not closed(rest) and i + 1 < len(lines):
                    i += 1
                    rest += "\n" + lines[i]
            elif rest.startswith("<"):
                def balanced(txt):
                    d = 0
                    for ch in txt:
                        if ch == "<":
                            d += 1
                        elif ch == ">":
                            d -= 1
                            if d == 0:
                                return True
                    return False

                while not balanced(rest) and i + 1 < len(lines):
                    i += 1
                    rest += "\n" + lines[i]
            m_rest = rest
            edges[key] += 1
            edge_labels.setdefault(key, []).append(sorted(parse_label_attr(m_rest)))
        i += 1
    return nodes, clusters, edges, edge_labels, dup


def mk_config(c):
    from hugr.hugr.render import PALETTE, Palette, RenderConfig

    pal = c.get("palette", "default")
    if isinstance(pal, str):
        p = PALETTE[pal]
    else:
        p = Palette(*pal)
    return RenderConfig(palette=p, qualify_op_name=bool(c.get("qualify")))


def display_name(op, qualify):
    from hugr.ops import AsExtOp

    if isinstance(op, AsExtOp) and not qualify:
        return op.op_def().name
    return op.name()


def check_one(h, cfg_desc):
    """-> (fails, parsed) for one configuration."""
    import hugr.tys as tys

    f: list[Fail] = []
    before = store.snapshot(h)
    meta_before = [(n.idx, list(h[n].metadata.items())) for n in h]
    try:
        dot = h.render_dot(mk_config(cfg_desc))
        src = dot.source
    except Exception as e:  # noqa: BLE001
        return [exc_fail("render", e)], None
    if store.snapshot(h) != before:
        f.append(Fail("render", "hugr-modified", ""))
    elif [(n.idx, list(h[n].metadata.items())) for n in h] != meta_before:
        f.append(Fail("render", "hugr-modified:metadata-order", ""))
    # one renderer used twice draws the same thing twice (nothing accumulates in the renderer)
    try:
        from hugr.hugr.render import DotRenderer

        rr = DotRenderer(mk_config(cfg_desc))
        s1 = rr.render(h).source
        s2 = rr.render(h).source
        if s1 != src or s2 != src:
            f.append(Fail("render", "renderer-reused:" + ("first" if s1 != src else "second") + "-rendering-differs", f"{len(src)} / {len(s1)} / {len(s2)} characters"))
    except Exception as e:  # noqa: BLE001
        f.append(exc_fail("render-again", e))
    nodes, clusters, edges, labels, dup = parse(src)
    if dup:
        f.append(Fail("nodes", "duplicate-statement", f"{dup[:3]}"))
    live = {n.idx: n for n in h}
    if set(nodes) != set(live):
        f.append(Fail("nodes", "node-statements", f"missing={sorted(set(live) - set(nodes))[:5]} extra={sorted(set(nodes) - set(live))[:5]}"))
        return f, None
    with_children = {i for i, n in live.items() if h.children(n)}
    if set(clusters) != with_children:
        f.append(Fail("clusters", "cluster-set", f"clusters={sorted(clusters)} nodes-with-children={sorted(with_children)}"))
    for i, n in live.items():
        label, stack = nodes[i]
        par = h[n].parent.idx if h[n].parent else None
        want_top = i if i in with_children else par
        if (stack[-1] if stack else None) != want_top:
            f.append(Fail("clusters", "node-placement", f"node {i} drawn in cluster {stack[-1] if stack else None}, expected {want_top}"))
        if i in clusters and clusters[i] != par:
            f.append(Fail("clusters", "nesting", f"cluster{i} inside {clusters[i]}, parent is {par}"))
        name = display_name(h[n].op, bool(cfg_desc.get("qualify")))
        # names are text inside an HTML-like label: `<`, `>` and `&` are written as character references
        # (characters that XML cannot represent at all - C0 controls, U+FFFE/F - are drawn as U+FFFD)
        if f"<B>{html.escape(_NOT_XML.sub(chr(0xFFFD), name), quote=False)}</B>" not in label:
            f.append(Fail("nodes", "display-name", f"node {i}: {name!r} not in label"))
        ports = Counter((d, int(k)) for d, k in PORT.findall(label))
        want = Counter([("in", k) for k in range(h.num_in_ports(n))] + [("out", k) for k in range(h.num_out_ports(n))])
        if ports != want:
            f.append(Fail("nodes", "port-cells", f"node {i}: cells {sorted(ports.elements())} expected {sorted(want.elements())}"))
        if len(f) > 6:
            break
    # the links as the per-port queries report them (not `links()`, which the renderer itself iterates)
    want_edges = store.port_links(h)
    if edges != want_edges:
        ga, wa = sorted(edges.elements()), sorted(want_edges.elements())
        f.append(Fail("edges", "edge-statements", f"drawn-only={[x for x in ga if x not in wa][:3]} missing={[x for x in wa if x not in ga][:3]}"))
    for s, d in h.links():
        kd = h.port_kind(s)
        key = (s.node.idx, s.offset, d.node.idx, d.offset)
        if isinstance(kd, tys.ValueKind) and key in labels and not any(str(kd.ty) in cands for cands in labels[key]):
            f.append(Fail("edges", "value-edge-label", f"{key}: {labels[key]} expected {str(kd.ty)!r}"))
            break
    parsed = (set(nodes), dict(clusters), edges, {k: sorted(v) for k, v in labels.items()}, {i: (sorted(Counter((d, int(k)) for d, k in PORT.findall(nodes[i][0])).elements()), nodes[i][1]) for i in nodes})
    return f, parsed


def build_edited(case):
    from hugr.hugr import Hugr

    h = Hugr(store.mk_pool_op(case["root"]))
    for k, v in (case.get("root_meta") or {}).items():
        h[h.root].metadata[k] = v  # metadata of the root node, in this key order
    for s in case["mut"]:
        store.apply_valid_mutation(h, s, set())
    return h


def check(case) -> list[Fail]:
    if "prog" in case:
        r, fails = run_program(case["prog"])
        if r is None:
            raise InvalidCase("program does not build")
        h = r.hugr
        # every call also gets a state-order edge to the Output of its region (order links leaving nodes that have a
        # static port besides their value ports)
        import hugr.ops as hops

        for n in list(h):
            if isinstance(h[n].op, hops.Call | hops.LoadConst | hops.LoadFunc):
                sib = h.children(h[n].parent)
                if sib and isinstance(h[sib[1]].op, hops.Output) if len(sib) > 1 else False:
                    h.add_order_link(n, sib[1])
    else:
        h = build_edited(case)
    f1, p1 = check_one(h, case["cfg"])
    f2, p2 = check_one(h, case["cfg2"])
    f = f1 + [x for x in f2 if (x.clause, x.locus) not in {(y.clause, y.locus) for y in f1}]
    # rendering without a configuration == rendering with a fresh default one, whatever another
    # renderer's configuration object was set to before
    try:
        from hugr.hugr.render import DotRenderer, RenderConfig

        other = DotRenderer()
        other.config.qualify_op_name = not other.config.qualify_op_name
        d0, d1 = h.render_dot().source, h.render_dot(RenderConfig()).source
        if d0 != d1:
            f.append(Fail("config-independence", "default-config-is-shared-state", "render_dot() differs from render_dot(RenderConfig()) after another renderer's config was changed"))
    except Exception as e:  # noqa: BLE001
        f.append(exc_fail("render-default", e))
    if p1 is not None and p2 is not None and p1 != p2:
        which = [n for n, (a, b) in zip(["nodes", "clusters", "edges", "edge-labels", "ports/placement"], zip(p1, p2)) if a != b]
        f.append(Fail("config-independence", "+".join(which), f"{case['cfg']} vs {case['cfg2']}"))
    return f[:8]


def check_store(case) -> list[Fail]:
    """`Hugr.store_dot` writes the same DOT source as `render_dot` draws, and Graphviz itself (the `dot`
    program, an independent reader of that source) accepts it and finds as many nodes and edges as the HUGR has
    nodes and links.  Without a `dot` executable only the written source is compared."""
    import os
    import shutil
    import tempfile

    r, fails = run_program(case["prog"])
    if r is None:
        raise InvalidCase("program does not build")
    h = r.hugr
    f: list[Fail] = []
    if len(case["prog"]["events"]) % 2:
        # text that must be written as character references inside the HTML-like labels
        h[h.root].metadata["k<&"] = "a<b & c>"
    before = store.snapshot(h)
    try:
        want = h.render_dot(mk_config(case["cfg"])).source
    except Exception as e:  # noqa: BLE001
        return [exc_fail("render", e)]
    d = tempfile.mkdtemp(prefix="c20-store-")
    try:
        path = os.path.join(d, "g")
        have_dot = shutil.which("dot") is not None
        try:
            if have_dot:
                h.store_dot(path, format="plain", config=mk_config(case["cfg"]))
            else:
                import graphviz

                try:
                    h.store_dot(path, format="plain", config=mk_config(case["cfg"]))
                except graphviz.ExecutableNotFound:
                    pass
        except Exception as e:  # noqa: BLE001
            return [exc_fail("store_dot", e)]
        if store.snapshot(h) != before:
            f.append(Fail("store_dot", "hugr-modified", ""))
        if not os.path.exists(path):
            return f + [Fail("store_dot", "source-file-missing", "")]
        got = open(path, encoding="utf-8").read()
        if got.rstrip("\n") != want.rstrip("\n"):
            f.append(Fail("store_dot", "source-differs-from-render_dot", f"{len(got)} vs {len(want)} characters"))
        if have_dot:
            out = path + ".plain"
            if not os.path.exists(out):
                return f + [Fail("store_dot", "rendered-file-missing", "")]
            lines = open(out, encoding="utf-8").read().splitlines()
            n_nodes = sum(1 for ln in lines if ln.startswith("node "))
            n_edges = sum(1 for ln in lines if ln.startswith("edge "))
            n_links = sum(store.port_links(h).values())
            if n_nodes != len(h):
                f.append(Fail("store_dot", "graphviz-node-count", f"graphviz reads {n_nodes} nodes, the HUGR has {len(h)}"))
            if n_edges != n_links:
                f.append(Fail("store_dot", "graphviz-edge-count", f"graphviz reads {n_edges} edges, the HUGR has {n_links} links"))
    finally:
        shutil.rmtree(d, ignore_errors=True)
    return f


COL = st.sampled_from(["white", "black", "#112233", "#ACCBF9", "red"])
CFG = st.fixed_dictionaries({"palette": st.one_of(st.sampled_from(["default", "nb", "zx"]), st.lists(COL, min_size=8, max_size=8)), "qualify": st.booleans()})


def strategy(tier):
    return st.fixed_dictionaries({"prog": proggen.programs(size=12 if tier == "quick" else 22, max_depth=2), "cfg": CFG, "cfg2": CFG})


NT = {"explicit-order-edge", "ext-edge", "load-const", "call", "cfg", "load-function"}
CONT = {"nested-dfg", "conditional", "tail-loop", "cfg", "nested-function", "insert"}


def nontrivial(case):
    cl = set(case["prog"].get("classes", []))
    root_is_container = True
    return bool(cl & NT) and (bool(cl & CONT) or root_is_container)


def edited_strategy(tier):
    return st.fixed_dictionaries({"root": st.sampled_from(["module", "dfg", "custom"]), "mut": st.one_of(store.reuse_mutations(25 if tier == "quick" else 45), store.burst_mutations(), store.burst_mutations()), "root_meta": st.one_of(st.none(), st.fixed_dictionaries({"name": st.sampled_from(["main", "ü", ""]), "k": st.integers(0, 2)}), st.fixed_dictionaries({"k": st.integers(0, 2), "name": st.just("n")})), "cfg": CFG, "cfg2": CFG})


def edited_nontrivial(case):
    h = build_edited(case)
    return any([c.idx for c in h.children(n)] != sorted(c.idx for c in h.children(n)) for n in h)


def call_strategy(tier):
    return st.fixed_dictionaries({"prog": proggen.programs(size=14 if tier == "quick" else 22, max_depth=1, roots=("module",), detached=False, call_bias=True), "cfg": CFG, "cfg2": CFG})


def store_strategy(tier):
    return st.fixed_dictionaries({"prog": proggen.programs(size=10 if tier == "quick" else 18, max_depth=2), "cfg": CFG})


SUBS = [
    # the file-writing entry point, read back by Graphviz itself
    Sub("store-dot", check_store, strategy=store_strategy, nontrivial=nontrivial, classes=lambda c: [x for x in c["prog"].get("classes", []) if x in NT | CONT],
        n_quick=50, n_thorough=300, sample_ok=lambda c: len(c["prog"]["events"]) <= 8),
    # module programs dominated by calls / function loads (static edges, order edges touching calls)
    Sub("render-calls", check, strategy=call_strategy, nontrivial=lambda c: "call" in c["prog"].get("classes", []), classes=lambda c: [x for x in c["prog"].get("classes", []) if x in ("call", "load-function", "explicit-order-edge")],
        n_quick=100, n_thorough=800, sample_ok=lambda c: len(c["prog"]["events"]) <= 8),
    # HUGRs after raw edits with index reuse: child order differs from index order
    Sub("render-after-edits", check, fuzz_runs=800, strategy=edited_strategy, nontrivial=edited_nontrivial, classes=lambda c: ["children-not-in-index-order"] if edited_nontrivial(c) else ["children-in-index-order"], n_quick=150, n_thorough=1000),
    Sub("render", check, strategy=strategy, nontrivial=nontrivial, classes=lambda c: ["qualify" if c["cfg"]["qualify"] else "plain", "custom-palette" if not isinstance(c["cfg"]["palette"], str) else c["cfg"]["palette"]] + [x for x in c["prog"].get("classes", []) if x in NT | CONT | {"metadata"}],
        n_quick=250, n_thorough=1500, sample_ok=lambda c: len(c["prog"]["events"]) <= 8),
]
