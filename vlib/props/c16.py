"""C16 Node handles enumerate exactly their operation's value outputs."""

from __future__ import annotations

import itertools

from hypothesis import strategies as st

from vlib.runner import Fail, InvalidCase, Sub

PROPERTY_ID = "C16"
RULE = (
    "index sub-check: exhaustive over n=0..12 (and handles without a count), every int in [-n-3,n+3] and every "
    "slice with start/stop in that range or None and step in {None,1,2,3,5}; large n via Hypothesis; oracle = "
    "range(n) semantics with the two stated deviations (IndexError for a bound < -n, positive overflow clamps); "
    "handle sub-check: handles returned by Hugr.add_node(num_outs=k) and by generated builder programs must "
    "iterate exactly the op's value outputs (count from the reference signature); ports hash/compare by "
    "(node idx, offset); rejected-call sub-check: generated builder program with one injected invalid call (the "
    "C13 catalogue, output-establishing calls first): every container handle that agreed with its op's output count "
    "before the rejected call still agrees with it afterwards. Non-trivial = n>=1 with a negative or out-of-range operand, or a builder handle with "
    ">=2 outputs; distinct by canonical JSON."
)
ASSUMPTIONS = ["slices with non-positive step are outside the statement and not generated (step None/0 means 1 is not asserted for 0)"]


def _slice(sl):
    return slice(*sl)


def check_index(case) -> list[Fail]:
    from hugr.hugr.node_port import InPort, Node, OutPort

    n = case["n"]
    node = Node(case.get("idx", 7), {}, n)
    fails: list[Fail] = []
    if "int" in case:
        i = case["int"]
        if n is None:
            expect = i if i >= 0 else IndexError
        else:
            expect = range(n)[i] if -n <= i < n else IndexError
        try:
            got = node[i]
        except IndexError:
            got = IndexError
        except Exception as e:  # noqa: BLE001
            got = type(e)
        if expect is IndexError:
            if got is not IndexError:
                fails.append(Fail("int-index", "out-of-range-accepted", f"n={n} i={i} got={got!r}"))
        else:
            if got != OutPort(Node(case.get("idx", 7)), expect):
                fails.append(Fail("int-index", "wrong-port", f"n={n} i={i} got={got!r} expect offset {expect}"))
            elif not isinstance(got, OutPort):
                fails.append(Fail("int-index", "not-outport", f"{got!r}"))
        return fails
    if "slice" in case:
        start, stop, step = case["slice"]
        sl = slice(start, stop, step)
        if n is None:
            # without a count: iteration over all outputs is a ValueError; a bounded slice of
            # non-negative bounds behaves like range(stop)[start::step]
            if stop is None:
                expect = ValueError
            else:
                return []  # bounded slices of a count-less handle are not specified by the statement
        else:
            if (start is not None and start < -n) or (stop is not None and stop < -n):
                expect = IndexError
            else:
                expect = list(range(n)[sl])
        try:
            got = [p for p in node[sl]]
        except (IndexError, ValueError) as e:
            got = type(e)
        if isinstance(expect, list):
            want = [OutPort(Node(case.get("idx", 7)), k) for k in expect]
            if got != want:
                fails.append(Fail("slice", "wrong-ports", f"n={n} slice={sl} got={got!r} want offsets {expect}"))
        elif got is not expect:
            fails.append(Fail("slice", f"expected-{expect.__name__}", f"n={n} slice={sl} got={got!r}"))
        return fails
    if case.get("iter"):
        if n is None:
            for what, f in (("iter", lambda: list(node)), ("outputs", lambda: list(node.outputs()))):
                try:
                    f()
                    fails.append(Fail("iterate", "no-count-accepted", what))
                except ValueError:
                    pass
        else:
            want = [OutPort(Node(case.get("idx", 7)), k) for k in range(n)]
            if list(node) != want or list(node.outputs()) != want:
                fails.append(Fail("iterate", "wrong-ports", f"n={n} got={list(node)!r}"))
        # node as a wire is output 0; ports compare and hash by (idx, offset) only
        if node.out_port() != OutPort(Node(case.get("idx", 7)), 0):
            fails.append(Fail("wire", "out_port", f"{node.out_port()!r}"))
        a = OutPort(Node(case.get("idx", 7), {"m": 1}, n), 2)
        b = OutPort(Node(case.get("idx", 7), {}, None), 2)
        if a != b or hash(a) != hash(b) or len({a, b}) != 1:
            fails.append(Fail("port-eq", "outport", "ports with same idx/offset differ"))
        ia = InPort(Node(case.get("idx", 7), {"m": 1}, n), 2)
        ib = InPort(Node(case.get("idx", 7)), 2)
        if ia != ib or hash(ia) != hash(ib):
            fails.append(Fail("port-eq", "inport", "ports with same idx/offset differ"))
        if a == OutPort(Node(case.get("idx", 7) + 1), 2) or a == OutPort(Node(case.get("idx", 7)), 3):
            fails.append(Fail("port-eq", "distinct-equal", "different ports equal"))
        return fails
    raise InvalidCase


def enum_index(tier):
    steps = [None, 1, 2, 3, 5]
    for n in [None] + list(range(0, 13)):
        nn = 4 if n is None else n
        rng = list(range(-nn - 3, nn + 4))
        yield {"n": n, "iter": True}
        for i in rng:
            yield {"n": n, "int": i}
        for start in [None] + rng:
            for stop in [None] + rng:
                for step in steps:
                    yield {"n": n, "slice": [start, stop, step]}


def nt_index(case) -> bool:
    n = case["n"]
    if n is None or n < 1:
        return False
    if "int" in case:
        return case["int"] < 0 or case["int"] >= n
    if "slice" in case:
        s, e, _ = case["slice"]
        return any(x is not None and (x < 0 or x > n) for x in (s, e))
    return True


def cls_index(case):
    n = case["n"]
    out = ["no-count" if n is None else ("n=0" if n == 0 else "n>0")]
    if "slice" in case:
        out.append("slice")
    if "int" in case:
        out.append("int")
    return out


def big_strategy(tier):
    n = st.integers(0, 10**4)
    off = st.integers(-(10**4) - 5, 10**4 + 5)
    near = lambda: st.one_of(st.none(), off, st.integers(-3, 3))  # noqa: E731

    @st.composite
    def c(draw):
        nn = draw(n)
        rel = st.one_of(st.none(), st.integers(-nn - 3, nn + 3), st.sampled_from([-nn - 1, -nn, nn - 1, nn, nn + 1]))
        if draw(st.booleans()):
            i = draw(rel)
            return {"n": nn, "int": i if i is not None else 0, "idx": draw(st.integers(0, 50))}
        return {"n": nn, "slice": [draw(rel), draw(rel), draw(st.sampled_from([None, 1, 2, 3, 7, 100]))], "idx": draw(st.integers(0, 50))}

    return c()


# ---- graph handles: add_node with explicit count


def check_add_node(case) -> list[Fail]:
    import hugr.ops as ops
    import hugr.tys as tys
    from hugr.hugr import Hugr
    from hugr.hugr.node_port import OutPort

    h = Hugr(ops.DFG([], []))
    fails = []
    handles = []
    for k in case["counts"]:
        op = ops.DFG([], [tys.Bool] * (k or 0))
        nd = h.add_node(op, h.root, num_outs=k)
        handles.append((nd, k))
    for j in case.get("delete", []):
        if handles:
            nd, k = handles.pop(j % len(handles))
            h.delete_node(nd)
            k2 = case["counts"][j % len(case["counts"])]
            nd2 = h.add_node(ops.DFG([], [tys.Bool] * (k2 or 0)), h.root, num_outs=k2)
            handles.append((nd2, k2))
    for nd, k in handles:
        if k is None:
            try:
                list(nd)
                fails.append(Fail("add_node-handle", "no-count-iterates", f"{nd!r}"))
            except ValueError:
                pass
            continue
        want = [OutPort(nd, i) for i in range(k)]
        if list(nd) != want:
            fails.append(Fail("add_node-handle", "wrong-outputs", f"k={k} got={list(nd)!r}"))
        # the handle stored in the hierarchy knows its count too
        stored = [c for c in h.children(h.root) if c.idx == nd.idx]
        if len(stored) != 1 or list(stored[0]) != want:
            fails.append(Fail("add_node-handle", "children-handle", f"k={k} stored={stored!r}"))
        if h.num_out_ports(nd) != k:
            fails.append(Fail("add_node-handle", "num_out_ports", f"k={k} got={h.num_out_ports(nd)}"))
    return fails


SUBS = [
    Sub("index-exhaustive", check_index, enumerate=enum_index, nontrivial=nt_index, classes=cls_index, exhaustive=True, shardable=True),
    Sub("index-large", check_index, fuzz_runs=10000, strategy=big_strategy, nontrivial=nt_index, classes=cls_index, n_quick=1500, n_thorough=10000),
    Sub(
        "add_node",
        check_add_node,
        strategy=lambda tier: st.fixed_dictionaries(
            {"counts": st.lists(st.one_of(st.none(), st.integers(0, 6)), min_size=1, max_size=6), "delete": st.lists(st.integers(0, 10), max_size=3)}
        ),
        nontrivial=lambda c: any((k or 0) >= 2 for k in c["counts"]),
        classes=lambda c: ["with-reuse"] if c["delete"] else ["no-reuse"],
        n_quick=300,
        n_thorough=2000,
    ),
]


# ---- builder handles on generated programs


def check_program_handles(case) -> list[Fail]:
    import json

    from hugr.hugr.node_port import OutPort

    from vlib import refval
    from vlib.props.c01 import run_program

    r, fails = run_program(case)
    if r is None:
        raise InvalidCase("program does not build")
    try:
        doc = json.loads(r.hugr.to_json())
    except Exception as e:  # noqa: BLE001
        raise InvalidCase("does not serialize") from e
    f: list[Fail] = []
    detached = {id(b.hugr) for rid, b in r.builders.items() if getattr(b, "hugr", None) is not r.hugr}

    def expect(handle, what):
        nd = handle.to_node() if hasattr(handle, "to_node") else handle
        if nd.idx >= len(doc["nodes"]):
            return
        want = len(refval.jsig(doc["nodes"][nd.idx])["outs"])
        try:
            got = list(handle)
        except Exception as e:  # noqa: BLE001
            f.append(Fail("builder-handle", f"{what}:iteration-raises-{type(e).__name__}", f"node {nd.idx} ({doc['nodes'][nd.idx]['op']}) with {want} outputs"))
            return
        if got != [OutPort(nd, i) for i in range(want)]:
            f.append(Fail("builder-handle", f"{what}:wrong-outputs", f"node {nd.idx} ({doc['nodes'][nd.idx]['op']}): {len(got)} ports, signature has {want}"))

    events = case["events"]
    in_detached = set()
    for i, ev in enumerate(events):
        if ev["e"] == "detached":
            in_detached.add(i)
    # regions living in detached builders get other node indices after insertion: skip their handles
    from vlib.props.c13 import structure

    R, evr = structure(case)
    # a node whose operation object was given to the builder again later (for other wires) no longer has the
    # operation it had when its handle was made (recorded finding under C01): only the latest user is judged
    groups: dict = {}
    for i_, ev in enumerate(events):
        if ev.get("e") == "op":
            root_ev = ev["same_as"] if ev.get("same_as") is not None else i_
            groups.setdefault(root_ev, []).append(i_)
    reused_later = set()
    for members in groups.values():
        if len(members) > 1 and events[members[0]]["op"]["k"] in ("Noop", "MakeTuple", "UnpackTuple", "CallIndirect"):
            reused_later |= set(members[:-1])  # all users of that (re-completed) object but the last one
    for idx, handle, op in r.handles:
        if idx in reused_later:
            continue
        reg = events[idx].get("r")
        if reg in R and R[reg]["tree"] != -1:
            continue
        k = op["k"] if isinstance(op, dict) else "?"
        what = {"LoadConst": "load", "Call": "call", "inserted": "insert"}.get(k, "add_" + events[idx].get("mode", "op") if events[idx]["e"] == "op" else events[idx]["e"])
        expect(handle, what)
    for rid, b in r.builders.items():
        if rid == -1 and case["root"]["kind"] in ("dfg", "cfg", "cond", "loop") and case.get("complete", True) and hasattr(b, "parent_node"):
            # a container builder that is the root of its own HUGR is a handle on its root node as well
            expect(b.parent_node, "root-container:" + case["root"]["kind"])
            expect(b, "root-builder:" + case["root"]["kind"])
            continue
        if rid not in R or R[rid]["tree"] != -1 or rid == -1:
            continue
        kind = R[rid]["kind"]
        if kind in ("nested", "loop", "cond", "if", "cfg") and hasattr(b, "parent_node"):
            expect(b.parent_node, "container:" + kind)
            expect(b, "builder:" + kind)
    return f[:6]


def _prog_strategy(tier):
    from vlib import proggen

    return proggen.programs(size=14 if tier == "quick" else 24, max_depth=2)


def _call_prog_strategy(tier):
    """Module programs dominated by (row-)polymorphic definitions, calls and function loads."""
    from vlib import proggen

    return proggen.programs(size=14 if tier == "quick" else 22, max_depth=1, roots=("module",), detached=False, call_bias=True)


def check_inserted(case) -> list[Fail]:
    """The handle returned by insert_nested / insert_cfg / insert_conditional / insert_tail_loop enumerates
    the outputs of the inserted container, for any number of outputs including none."""
    import hugr.ops as ops
    import hugr.tys as tys
    from hugr.build.cfg import Cfg
    from hugr.build.cond_loop import Conditional, TailLoop
    from hugr.build.dfg import Dfg
    from hugr.hugr.node_port import OutPort

    from vlib.interp import mk_row

    tr = mk_row(case["row"])
    kind = case["kind"]
    host = Dfg(*tr, *([tys.Bool] if kind == "conditional" else []))
    wires = list(host.inputs())[: len(tr)]
    if kind == "nested":
        b = Dfg(*tr)
        b.set_outputs(*b.inputs())
        node = host.insert_nested(b, *wires)
    elif kind == "cfg":
        b = Cfg(*tr)
        with b.add_entry() as entry:
            entry.set_single_succ_outputs(*entry.inputs())
        b.branch(entry[0], b.exit)
        node = host.insert_cfg(b, *wires)
    elif kind == "conditional":
        b = Conditional(tys.Bool, tr)
        for i in range(2):
            with b.add_case(i) as c:
                c.set_outputs(*c.inputs())
        node = host.insert_conditional(b, host.inputs()[len(tr)], *wires)
    else:
        k = case["just"] % (len(tr) + 1)
        b = TailLoop(tr[:k], tr[k:])
        ins = list(b.inputs())
        brk = b.add_op(ops.Tag(1, tys.Either(tr[:k], tr[:k])), *ins[:k])
        b.set_loop_outputs(brk, *ins[k:])
        node = host.insert_tail_loop(b, wires[:k], wires[k:])
    want = [OutPort(node.to_node(), i) for i in range(len(tr))]
    try:
        got = list(node)
    except Exception as e:  # noqa: BLE001
        return [Fail("builder-handle", f"insert_{kind}:iteration-raises-{type(e).__name__}", f"inserted container with {len(tr)} outputs")]
    if got != want:
        return [Fail("builder-handle", f"insert_{kind}:wrong-outputs", f"{len(got)} ports, the container has {len(tr)} outputs")]
    return []


SUBS.append(
    Sub("inserted-container-handles", check_inserted, strategy=lambda tier: st.fixed_dictionaries({"kind": st.sampled_from(["nested", "cfg", "conditional", "tail_loop"]), "row": st.lists(__import__("vlib.asts", fromlist=["x"]).types(1, copy_only=True), max_size=3), "just": st.integers(0, 3)}),
        nontrivial=lambda c: True, classes=lambda c: [c["kind"], f"outputs:{min(len(c['row']), 2)}"], n_quick=160, n_thorough=1000)
)


def check_reused_handles(case) -> list[Fail]:
    """One UnpackTuple / CallIndirect operation object given to the builder twice, for a tuple / function of
    another width: the handle returned for the second node enumerates the second node's outputs."""
    import hugr.ops as ops
    import hugr.tys as tys
    from hugr.build.dfg import Dfg
    from hugr.hugr.node_port import OutPort

    from vlib.interp import mk_row

    r1, r2 = mk_row(case["rows"][0]), mk_row(case["rows"][1])
    if case["op"] == "UnpackTuple":
        d = Dfg(tys.Tuple(*r1), tys.Tuple(*r2))
        op = ops.UnpackTuple()
        args = [[d.inputs()[0]], [d.inputs()[1]]]
    else:
        d = Dfg(tys.FunctionType([], r1), tys.FunctionType([], r2))
        op = ops.CallIndirect()
        args = [[d.inputs()[0]], [d.inputs()[1]]]
    handles = []
    for a in args:
        if case["mode"] == "add_op":
            handles.append(d.add_op(op, *a))
        elif case["mode"] == "add":
            handles.append(d.add(op(*a)))
        else:
            handles.append(d.extend(op(*a))[0])
    h2 = handles[1]
    want = [OutPort(h2.to_node(), i) for i in range(len(r2))]
    try:
        got = list(h2)
    except Exception as e:  # noqa: BLE001
        return [Fail("builder-handle", f"reused-{case['op']}:iteration-raises-{type(e).__name__}", f"second use with {len(r2)} outputs")]
    if got != want:
        return [Fail("builder-handle", f"reused-{case['op']}:wrong-outputs", f"{len(got)} ports, the second node has {len(r2)} outputs (first use had {len(r1)})")]
    return []


def _reused_handles_strategy(tier):
    from vlib import asts

    row = st.lists(asts.types(1, copy_only=True), max_size=4)
    return st.fixed_dictionaries({"op": st.sampled_from(["UnpackTuple", "CallIndirect"]), "rows": st.tuples(row, row).map(list), "mode": st.sampled_from(["add_op", "add", "extend"])})


SUBS.append(
    Sub("reused-partial-op-handles", check_reused_handles, strategy=_reused_handles_strategy, nontrivial=lambda c: len(c["rows"][0]) != len(c["rows"][1]), classes=lambda c: [c["op"], c["mode"]], n_quick=200, n_thorough=1500)
)


def _reuse_prog_strategy(tier):
    from vlib import proggen

    return proggen.programs(size=10 if tier == "quick" else 16, max_depth=1, roots=("dfg", "function"), detached=False, reuse_partial=True)


SUBS.append(
    Sub("handles-of-reused-partial-ops", check_program_handles, strategy=_reuse_prog_strategy, nontrivial=lambda c: "partial-op-object-reused-with-other-types" in c.get("classes", []),
        classes=lambda c: [x for x in c.get("classes", []) if "reused" in x], n_quick=150, n_thorough=1000, sample_ok=lambda c: len(c["events"]) <= 8)
)
SUBS.append(
    Sub("call-handles", check_program_handles, strategy=_call_prog_strategy, nontrivial=lambda c: "call" in c.get("classes", []),
        classes=lambda c: [x for x in c.get("classes", []) if x in ("call", "load-function", "row-polymorphic-call", "polymorphic-call")], n_quick=120, n_thorough=1000, sample_ok=lambda c: len(c["events"]) <= 10)
)
SUBS.append(
    Sub("builder-handles", check_program_handles, strategy=_prog_strategy, nontrivial=lambda c: "multi-output-op" in c.get("classes", []) or len(c["events"]) >= 6,
        classes=lambda c: [x for x in c.get("classes", []) if x in ("multi-output-op", "insert", "call", "load-const", "nested-dfg", "cfg", "conditional", "tail-loop")], n_quick=250, n_thorough=1500,
        sample_ok=lambda c: len(c["events"]) <= 10)
)


# ---- handles after a rejected builder call


def _counts(res):
    """key -> (what the handle enumerates, the op's number of value outputs) for every handle / container
    builder created so far; either side None when undetermined."""
    out = {}

    def one(key, handle, hugr):
        try:
            nd = handle.to_node() if hasattr(handle, "to_node") else handle
            op = hugr[nd].op
        except Exception:  # noqa: BLE001
            return
        try:
            n_op = len(op.outer_signature().output)
        except Exception:  # noqa: BLE001
            n_op = None
        try:
            got = [(p.node.idx, p.offset) for p in handle]
            n_h = len(got) if got == [(nd.idx, i) for i in range(len(got))] else "wrong-ports"
        except ValueError:
            n_h = None
        except Exception as e:  # noqa: BLE001
            n_h = "raises-" + type(e).__name__
        out[key] = (n_h, n_op, type(op).__name__)

    for rid, b in list(res.builders.items()):
        if hasattr(b, "parent_node") and getattr(b, "hugr", None) is not None:
            one(("builder", rid), b.parent_node, b.hugr)
    return out


def check_rejected(case) -> list[Fail]:
    from vlib.props import c13

    kind = c13.effective_kind(case)
    if kind in (None, "untracked-index"):
        raise InvalidCase("no injection applicable")
    inj = c13.inject(case["prog"], kind, case["sel"])
    if inj is None:
        raise InvalidCase("injection not applicable")
    p2, pos = inj
    seen = {}

    def watch(idx, ev, res):
        seen["res"] = res
        seen["before"] = _counts(res)

    try:
        exc, at = c13.run_injected(p2, watch)
    except (c13._Accepted, c13._AcceptedSilently):
        raise InvalidCase("injection accepted (C13's business)") from None
    if exc is None or "res" not in seen or at == "to_json":
        raise InvalidCase("nothing was rejected by a builder call")
    after = _counts(seen["res"])
    f = []
    for key, (h_b, op_b, cls) in seen["before"].items():
        if key not in after:
            continue
        h_a, op_a, _ = after[key]
        # a handle that agreed with its op before the rejected call must still agree with it afterwards
        if op_b is not None and h_b == op_b and op_a is not None and h_a != op_a:
            f.append(Fail("rejected-call", f"{kind}:{cls}-handle-out-of-sync", f"{key}: handle {h_b}->{h_a}, op outputs {op_b}->{op_a} after {type(exc).__name__}"))
    return f[:4]


def _rejected_strategy(tier):
    from vlib import proggen
    from vlib.props import c13

    # the calls that establish or compare a container's outputs first; the others as fall-back
    kinds = ["case-outputs-disagree", "exit-row-mismatch", "function-outputs-differ", "case-built-twice", "case-index-out-of-range", "cond-exit-unbuilt", "unrelated-wire", "non-dataflow-wire", "int-wire-in-dfg"]
    return st.fixed_dictionaries({"prog": proggen.programs(size=14 if tier == "quick" else 22, max_depth=2), "kind": st.sampled_from(kinds[:4]), "kinds": st.just(kinds), "sel": st.integers(0, 50)})


def _rejected_nt(case):
    from vlib.props import c13

    return c13.effective_kind(case) in ("case-outputs-disagree", "exit-row-mismatch", "function-outputs-differ", "case-built-twice")


SUBS.append(
    Sub("handles-after-rejected-call", check_rejected, strategy=_rejected_strategy, nontrivial=_rejected_nt,
        classes=lambda c: [str(__import__("vlib.props.c13", fromlist=["x"]).effective_kind(c))], n_quick=300, n_thorough=2000, sample_ok=lambda c: len(c["prog"]["events"]) <= 10)
)
