"""C08 Inserting a HUGR embeds it isomorphically and disturbs nothing else."""

from __future__ import annotations

import json

from collections import Counter

from hypothesis import strategies as st

from vlib import store
from vlib.runner import Fail, InvalidCase, Sub

PROPERTY_ID = "C08"
RULE = (
    "raw sub-check: pairs (A, B) of stores built by generated raw-API histories (any root op, multi-linked ports, order "
    "links, metadata, holes from deletions in B that keep parent-first order) and any node of A as parent; wrappers "
    "sub-check: generated Dfg / Cfg / Conditional / TailLoop builders inserted with insert_nested / insert_cfg / "
    "insert_conditional / insert_tail_loop and wires. Oracle: snapshots before/after through the public queries: the "
    "returned mapping is total, injective and fresh; ops (encoded), metadata, output port counts, child order and the "
    "link multiset (offsets, multiplicity, order links) are preserved under the mapping; image of B's root is the last "
    "child of the parent (wires end at inputs 0..k-1); A's old nodes/links and B are unchanged. Non-trivial = B has "
    ">= 3 nodes and a multi-linked port, an order link or a hole; distinct by canonical JSON."
)
ASSUMPTIONS = ["B satisfies insert_hugr's documented precondition (parents have smaller indices than their children)"]


def check_mapping(a, b, parent, mapping, before_a, before_b, real_handles=True) -> list[Fail]:
    """a: host after insertion; before_a/before_b: snapshots taken before."""
    f: list[Fail] = []
    nodes_a0, links_a0 = before_a
    nodes_b, links_b = before_b
    mp = {k.idx: v.idx for k, v in mapping.items()}
    if sorted(mp) != sorted(nodes_b):
        return [Fail("mapping", "not-total", f"domain {sorted(mp)} vs nodes of B {sorted(nodes_b)}")]
    img = list(mp.values())
    if len(set(img)) != len(img):
        return [Fail("mapping", "not-injective", f"{mp}")]
    if any(i in nodes_a0 for i in img):
        return [Fail("mapping", "not-fresh", f"{mp} reuses live nodes of A")]
    nodes_a1, links_a1 = store.snapshot(a)
    root_b = [i for i, v in nodes_b.items() if v[1] is None][0]
    for bi, (op, par, children, meta, nin, nout) in nodes_b.items():
        got = nodes_a1.get(mp[bi])
        if got is None:
            f.append(Fail("image", "missing-node", f"B node {bi}"))
            continue
        if got[0] != op:
            f.append(Fail("image", "op", f"B node {bi}"))
        want_par = parent if bi == root_b else mp[par]
        if got[1] != want_par:
            f.append(Fail("image", "parent", f"B node {bi}: parent {got[1]} want {want_par}"))
        if got[2] != [mp[c] for c in children]:
            f.append(Fail("image", "child-order", f"B node {bi}: {got[2]} want {[mp[c] for c in children]}"))
        if got[3] != meta:
            f.append(Fail("image", "metadata", f"B node {bi}: {got[3]} want {meta}"))
        # a recorded count below a linked port (a builder lowered it afterwards) contradicts the store's own
        # convention "if port i is connected, ports 0..i exist": the image then has the ports its links need
        nout = max([nout] + [so + 1 for (s_, so, _, _) in links_b if s_ == bi])
        if got[5] != nout:
            f.append(Fail("image", "num-out-ports", f"B node {bi}: {got[5]} want {nout}"))
        # the handles given back (mapping values, children listings) expose the node's metadata too
        hv = next((v for k, v in mapping.items() if k.idx == bi), None)
        if real_handles and hv is not None and json.dumps(hv.metadata, sort_keys=True, default=repr) != meta:
            f.append(Fail("image", "handle-metadata", f"B node {bi}: handle says {hv.metadata}, node has {meta}"[:300]))
    if nodes_a1[parent][2] != nodes_a0[parent][2] + [mp[root_b]]:
        f.append(Fail("image", "root-not-last-child", f"children of parent {nodes_a1[parent][2]}"))
    want_links = Counter()
    for (s, so, d, do), c in links_b.items():
        want_links[(mp[s], so, mp[d], do)] += c
    imgset = set(img)
    got_new = Counter({k: c for k, c in links_a1.items() if k[0] in imgset or k[2] in imgset})
    if got_new != want_links:
        f.append(Fail("image", "links", f"got={sorted(got_new.elements())} want={sorted(want_links.elements())}"[:400]))
    got_old = Counter({k: c for k, c in links_a1.items() if k[0] not in imgset and k[2] not in imgset})
    if got_old != links_a0:
        f.append(Fail("host", "old-links-changed", f"{sorted(got_old.elements())} vs {sorted(links_a0.elements())}"[:300]))
    for i, v in nodes_a0.items():
        w = nodes_a1.get(i)
        if w is None:
            f.append(Fail("host", "old-node-lost", f"{i}"))
            continue
        exp_children = v[2] + ([mp[root_b]] if i == parent else [])
        if (w[0], w[1], w[2], w[3]) != (v[0], v[1], exp_children, v[3]) or w[4] < v[4] or w[5] < v[5]:
            f.append(Fail("host", "old-node-changed", f"{i}: {w} vs {v}"[:300]))
    if set(nodes_a1) != set(nodes_a0) | imgset:
        f.append(Fail("host", "node-set", f"{sorted(nodes_a1)}"))
    return f


def check_orphans(case) -> list[Fail]:
    """B lost a container whose children are still there (delete_node keeps descendants): those nodes have no
    parent to map, so no embedding exists; insert_hugr must refuse rather than hang them somewhere."""
    a, am, ah = store.build(case["a"])
    b, bm, bh = store.build(case["b"])
    conts = [i for i in bm.live() if i != bm.root and bm.nodes[i]["children"]]
    if not conts:
        raise InvalidCase("no container to delete")
    b.delete_node(bh[conts[case["parent"] % len(conts)]])
    live = am.live()
    try:
        a.insert_hugr(b, ah[live[case["parent"] % len(live)]])
    except Exception:  # noqa: BLE001 - refused (ParentBeforeChild on the pinned tree)
        return []
    return [Fail("orphans", "embedded-without-their-parent", "insert_hugr returned a mapping for a HUGR holding nodes whose parent was deleted")]


def check_raw(case) -> list[Fail]:
    a, am, ah = store.build(case["a"])
    b, bm, bh = store.build(case["b"])
    if any(v["parent"] is not None and v["parent"] > i for i, v in bm.nodes.items()):
        raise InvalidCase("child before parent")
    live = am.live()
    parent = live[case["parent"] % len(live)]
    sa, sb = store.snapshot(a), store.snapshot(b)
    mapping = a.insert_hugr(b, ah[parent])
    f = check_mapping(a, b, parent, mapping, sa, sb)
    if store.snapshot(b) != sb:
        f.append(Fail("source", "modified", "B changed"))
    return f


def b_flags(case):
    try:
        _, bm, _ = store.build(case["b"])
    except Exception:  # noqa: BLE001
        return set(), 0
    return set(bm.flags), len(bm.nodes)


def nt_raw(case) -> bool:
    fl, n = b_flags(case)
    return n >= 3 and bool(fl & {"multi-link", "order-link", "delete-node"})


def raw_strategy(tier):
    hist = lambda n, lo=0: st.fixed_dictionaries({"root": st.sampled_from(["dfg", "module", "custom", "tag"]), "steps": st.lists(store.step_strategy(False), min_size=lo, max_size=n)})  # noqa: E731

    def parent_first(c):
        try:
            _, bm, _ = store.build(c)
        except Exception:  # noqa: BLE001
            return False
        return not any(v["parent"] is not None and v["parent"] > i for i, v in bm.nodes.items())

    reuse = st.fixed_dictionaries({"root": st.sampled_from(["dfg", "module"]), "steps": store.reuse_mutations(20)})
    # a host with several free indices at insertion time: additions, then deletions only
    adds = st.lists(st.tuples(st.just("add_node"), st.sampled_from(store.OP_POOL), store.SEL, st.one_of(st.none(), st.integers(0, 3)), store.META).map(list), min_size=5, max_size=12)
    dels = st.lists(st.tuples(st.just("delete_node"), store.SEL).map(list), min_size=2, max_size=5)
    holes = st.tuples(adds, dels).map(lambda t: {"root": "dfg", "steps": t[0] + t[1]})
    # an inserted HUGR whose root has children in an order far from index order: siblings added,
    # several of them deleted, as many added again (freed indices are reused most recent first)
    add0 = st.tuples(st.just("add_node"), st.sampled_from(store.OP_POOL), st.just(0), st.one_of(st.none(), st.integers(0, 3)), store.META).map(list)
    bursts = st.tuples(st.lists(add0, min_size=4, max_size=8), st.lists(st.tuples(st.just("delete_node"), store.SEL).map(list), min_size=3, max_size=5), st.lists(add0, min_size=3, max_size=5), st.lists(store.step_strategy(False), max_size=6)).map(
        lambda t: {"root": "dfg", "steps": t[0] + t[1] + t[2] + t[3]}
    )
    dense = store.dense_history_strategy(20)  # parallel / fan-in links on few ports, then deletions
    b = st.one_of(hist(16 if tier == "quick" else 25, 5), hist(16 if tier == "quick" else 25, 5), bursts, dense)
    return st.fixed_dictionaries({"a": st.one_of(hist(12), reuse, holes, dense, dense), "b": b.filter(parent_first), "parent": st.integers(0, 20)})


# ------------------------------------------------------------------ builder wrappers


def _types(names):
    import hugr.tys as tys

    m = {"bool": tys.Bool, "qubit": tys.Qubit, "unit": tys.Unit}
    return [m[n] for n in names]


def check_wrapper(case) -> list[Fail]:
    import hugr.ops as ops
    import hugr.tys as tys
    import hugr.val as val
    from hugr.build.cfg import Cfg
    from hugr.build.cond_loop import Conditional, TailLoop
    from hugr.build.dfg import Dfg
    from hugr.std.logic import Not

    kind = case["kind"]
    row = case["row"]  # type names of the wires
    tr = _types(row)
    host_row = [*tr, *([tys.Bool] if kind == "conditional" else [])]
    if case.get("host") == "block":
        # the host is a basic block of a CFG; every other wire comes from the dominating entry block
        cfg_host = Cfg(*host_row)
        entry_b = cfg_host.add_entry()
        entry_b.set_single_succ_outputs(*entry_b.inputs())
        host = cfg_host.add_successor(entry_b[0])
        wires = [(entry_b.inputs()[i] if i % 2 == 0 else host.inputs()[i]) for i in range(len(tr))]
    else:
        host = Dfg(*host_row)
        wires = list(host.inputs())[: len(tr)]
    meta = case.get("meta")
    if kind == "nested":
        variant = case.get("just", 0) % 4
        if variant == 1:
            # the generic dataflow builder: its set_outputs records no output count on the root (it stays 0)
            from hugr.build.dfg import DfBase

            b = DfBase(ops.DFG(tr))
        else:
            b = Dfg(*tr)
        outs = list(b.inputs())
        shrink = None
        if variant >= 2 and row:
            # a nested child whose outputs are set again to the empty row after its output port 0 got a
            # consumer: the child's recorded output count is 0 while its port 0 is linked
            shrink = b.add_nested(outs[0])
            shrink.set_outputs(*shrink.inputs())
            outs[0] = shrink[0]
        for i, n in enumerate(row):
            if n == "bool" and case.get("nots", 0) > 0:
                outs[i] = b.add_op(Not, outs[i], metadata=meta)[0]
        if case.get("order") and len(b.hugr) > 3:
            b.add_state_order(b.input_node, b.output_node)
        b.set_outputs(*outs)
        if shrink is not None:
            shrink.set_outputs()
        sa, sb = store.snapshot(host.hugr), store.snapshot(b.hugr)
        node = host.insert_nested(b, *wires)
        root_b = b.parent_node
    elif kind == "cfg":
        b = Cfg(*tr)
        with b.add_entry() as entry:
            entry.set_single_succ_outputs(*entry.inputs())
        b.branch(entry[0], b.exit)
        sa, sb = store.snapshot(host.hugr), store.snapshot(b.hugr)
        node = host.insert_cfg(b, *wires)
        root_b = b.parent_node
    elif kind == "conditional":
        b = Conditional(tys.Bool, tr)
        for i in range(2):
            with b.add_case(i) as c:
                c.set_outputs(*c.inputs())
        sa, sb = store.snapshot(host.hugr), store.snapshot(b.hugr)
        node = host.insert_conditional(b, host.inputs()[len(tr)], *wires)
        wires = [host.inputs()[len(tr)], *wires]
        root_b = b.parent_node
    elif kind == "tail_loop":
        k = case.get("just", 0) % (len(tr) + 1)
        b = TailLoop(tr[:k], tr[k:])
        ins = list(b.inputs())
        brk = b.add_op(ops.Tag(1, tys.Either(tr[:k], tr[:k])), *ins[:k])
        b.set_loop_outputs(brk, *ins[k:])
        sa, sb = store.snapshot(host.hugr), store.snapshot(b.hugr)
        node = host.insert_tail_loop(b, wires[:k], wires[k:])
        root_b = b.parent_node
    else:
        raise InvalidCase(kind)
    f: list[Fail] = []
    h = host.hugr
    # reconstruct the mapping: the inserted nodes are the new ones, in B's order
    new = sorted(set(i.idx for i in h) - set(sa[0]))
    bn = sorted(sb[0])
    if len(new) != len(bn):
        return [Fail("wrapper", f"{kind}:node-count", f"{len(new)} new nodes for {len(bn)}")]
    from hugr.hugr.node_port import Node

    mapping = {Node(x): Node(y) for x, y in zip(bn, new)}
    if mapping[Node(root_b.idx)].idx != node.idx:
        f.append(Fail("wrapper", f"{kind}:returned-node", f"{node} is not the image of B's root"))
    # the wires are extra links from A into the image root: remove them before the isomorphism check
    a_links_expected_extra = Counter()
    for i, w in enumerate(wires):
        p = w.out_port()
        a_links_expected_extra[(p.node.idx, p.offset, node.idx, i)] += 1
    nodes1, links1 = store.snapshot(h)
    extra = Counter({k: c for k, c in links1.items() if (k[2] == node.idx and k[0] in sa[0])})
    if extra != a_links_expected_extra:
        f.append(Fail("wrapper", f"{kind}:wires", f"got={sorted(extra.elements())} want={sorted(a_links_expected_extra.elements())}"[:300]))
    # temporarily delete the wires to reuse the raw isomorphism oracle
    from hugr.hugr.node_port import InPort, OutPort

    for (s, so, d, do), c in extra.items():
        for _ in range(c):
            h.delete_link(OutPort(Node(s), so), InPort(Node(d), do))
    f += [Fail(x.clause, f"{kind}:{x.locus}", x.msg) for x in check_mapping(h, b.hugr, host.parent_node.idx, mapping, sa, sb, real_handles=False)]
    if store.snapshot(b.hugr) != sb:
        f.append(Fail("source", f"{kind}:modified", "B changed"))
    return f


ROWS = st.lists(st.sampled_from(["bool", "bool", "qubit", "unit"]), max_size=4)
wrapper_strategy = st.fixed_dictionaries(
    {
        "kind": st.sampled_from(["nested", "cfg", "conditional", "tail_loop"]),
        "row": ROWS,
        "nots": st.integers(0, 1),
        "order": st.booleans(),
        "just": st.integers(0, 4),
        "meta": store.META,
        "host": st.sampled_from(["dfg", "dfg", "block"]),
    }
)

SUBS = [
    Sub("raw", check_raw, fuzz_runs=1500, strategy=raw_strategy, nontrivial=nt_raw, classes=lambda c: sorted(b_flags(c)[0]), n_quick=1600, n_thorough=4000),
    Sub("orphans", check_orphans, strategy=lambda tier: st.fixed_dictionaries({"a": st.fixed_dictionaries({"root": st.just("dfg"), "steps": st.lists(store.step_strategy(False), max_size=6)}), "b": store.churn_strategy(14).map(lambda c: dict(c, steps=[x for x in c["steps"] if x[0] != "delete_node"])), "parent": st.integers(0, 20)}),
        nontrivial=lambda c: True, n_quick=150, n_thorough=800),
    Sub("wrappers", check_wrapper, strategy=lambda tier: wrapper_strategy, nontrivial=lambda c: len(c["row"]) >= 1, classes=lambda c: [c["kind"], "host:" + c.get("host", "dfg")] + ([["standard-builder", "generic-builder", "child-with-shrunk-output-count", "child-with-shrunk-output-count"][c.get("just", 0) % 4]] if c["kind"] == "nested" else []), n_quick=500, n_thorough=2000),
]
