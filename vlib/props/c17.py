"""C17 The published JSON schema and the Python codec accept the same documents."""

from __future__ import annotations

import atexit
import copy
import json
import os
import shutil
import subprocess
import sys
import tempfile

from hypothesis import strategies as st

from vlib import extgen, modgen, proggen
from vlib.props.c01 import run_program
from vlib.runner import REPO, VERIF, Fail, HarnessError, InvalidCase, Sub

PROPERTY_ID = "C17"
RULE = (
    "files sub-check (exhaustive): the four schema files are regenerated in a subprocess exactly as "
    "scripts/generate_schema.py does and compared node by node with specification/schema (after normalising "
    "'additionalProperties: true' == absent), and again one file at a time in a fresh process with only that "
    "configuration applied (independent of the order in which the script generates them); file names carry "
    "SerialHugr.get_version(). differential sub-check: valid "
    "HUGR / Package / Extension documents from generated programs / extensions, each with one structural mutation at a "
    "generated JSON path (delete a key; unknown discriminator literal; object or array replaced by a string or null; "
    "unknown bound literal; unknown top-level key); acceptance by the strict / lax pydantic models (rebuilt as the "
    "script does, in a worker process) must equal acceptance by jsonschema on the published strict / lax file. "
    "strict-config sub-check: in the strict configuration an unknown key or an integer written as a string at a generated "
    "place (inside nodes[*] at any depth, or at the top level) is judged alike by decoder and schema. "
    "accepted-keys clause (exhaustive over the fields of every serialization model): the keys a model reads (name, alias, "
    "validation-alias choices) are exactly the properties of its published definition. "
    "Non-trivial = mutated path inside nodes[*], a type, a value or an op def; distinct by canonical JSON."
)
ASSUMPTIONS = [
    "excluded mutation classes (pydantic and JSON Schema differ by design): scalar coercions and unknown keys in the lax configuration, tuple prefixItems (edges)",
    "jsonschema Draft 2020-12 implementation is trusted",
]

FILES = ["hugr_schema_live.json", "hugr_schema_strict_live.json", "testing_hugr_schema_live.json", "testing_hugr_schema_strict_live.json"]
_gen_dir = None


def regenerated():
    global _gen_dir
    if _gen_dir is None:
        d = tempfile.mkdtemp(prefix="verif-schema-")
        atexit.register(shutil.rmtree, d, True)
        env = dict(os.environ, PYTHONPATH=os.path.join(REPO, "hugr-py", "src"))
        r = subprocess.run([sys.executable, os.path.join(REPO, "scripts", "generate_schema.py"), d], env=env, capture_output=True, text=True, timeout=600)
        if r.returncode != 0:
            raise HarnessError("generate_schema.py failed: " + r.stderr[-500:])
        _gen_dir = d
    return _gen_dir


def normalise(x):
    if isinstance(x, dict):
        return {k: normalise(v) for k, v in x.items() if not (k == "additionalProperties" and v is True)}
    if isinstance(x, list):
        return [normalise(v) for v in x]
    return x


def check_file(case) -> list[Fail]:
    from vlib.props.c05 import first_diff

    d = regenerated()
    name = case["file"]
    gen_path = os.path.join(d, name)
    pub_path = os.path.join(REPO, "specification", "schema", name)
    if not os.path.exists(gen_path):
        return [Fail("schema-files", "not-generated:" + name, f"generated files: {sorted(os.listdir(d))}")]
    if not os.path.exists(pub_path):
        return [Fail("schema-files", "not-published:" + name, "")]
    with open(gen_path) as f:
        g = normalise(json.load(f))
    with open(pub_path) as f:
        p = normalise(json.load(f))
    if g != p:
        path = first_diff(g, p) or "?"
        return [Fail("schema-files", f"differs:{'strict' if 'strict' in name else 'lax'}:{path}", f"{name}: models and published schema differ at {path}")]
    return []


_fresh: dict = {}


def regenerated_fresh(name):
    """The schema the models define for one (root model, configuration), generated in a process of its own
    (no other configuration was applied before: what write_schema of the generator script does, alone)."""
    if name not in _fresh:
        root = "TestingHugr" if name.startswith("testing") else "SerialHugr"
        strict = "strict" in name
        code = (
            "import json, sys\n"
            "from pydantic import ConfigDict\n"
            "from pydantic.json_schema import models_json_schema\n"
            "from hugr._serialization.extension import Extension, Package\n"
            "from hugr._serialization.serial_hugr import SerialHugr\n"
            "from hugr._serialization.testing_hugr import TestingHugr\n"
            f"root = {root}\n"
            f"cfg = ConfigDict(strict=True, extra='forbid') if {strict!r} else ConfigDict(strict=False, extra='allow')\n"
            "root._pydantic_rebuild(cfg, force=True)\n"
            "_, top = models_json_schema([(s, 'validation') for s in [root, Extension, Package]], title='HUGR schema')\n"
            "json.dump(top, sys.stdout)\n"
        )
        env = dict(os.environ, PYTHONPATH=os.path.join(REPO, "hugr-py", "src"))
        r = subprocess.run([sys.executable, "-c", code], env=env, capture_output=True, text=True, timeout=600)
        if r.returncode != 0:
            raise HarnessError("fresh schema generation failed: " + r.stderr[-500:])
        _fresh[name] = json.loads(r.stdout)
    return _fresh[name]


def check_fresh(case) -> list[Fail]:
    from vlib.props.c05 import first_diff

    name = case["fresh"]
    with open(os.path.join(REPO, "specification", "schema", name)) as f:
        p = normalise(json.load(f))
    g = normalise(regenerated_fresh(name))
    if g != p:
        path = first_diff(g, p) or "?"
        return [Fail("schema-files", f"differs-from-fresh-generation:{'strict' if 'strict' in name else 'lax'}:{path}", f"{name}: the models alone (fresh process, this configuration only) and the published schema differ at {path}")]
    return []


def check_history(case) -> list[Fail]:
    """The schema the models define for SerialHugr under a configuration does not depend on which
    configurations were applied (to either root model) before in the same process."""
    from vlib.props.c05 import first_diff

    hist = case["history"]  # list of [root, mode], the last one is ["SerialHugr", mode]
    code = (
        "import json, sys\n"
        "from pydantic import ConfigDict\n"
        "from pydantic.json_schema import models_json_schema\n"
        "from hugr._serialization.extension import Extension, Package\n"
        "from hugr._serialization.serial_hugr import SerialHugr\n"
        "from hugr._serialization.testing_hugr import TestingHugr\n"
        "R = {'SerialHugr': SerialHugr, 'TestingHugr': TestingHugr}\n"
        "C = {'strict': ConfigDict(strict=True, extra='forbid'), 'lax': ConfigDict(strict=False, extra='allow')}\n"
        f"for root, mode in {hist!r}:\n"
        "    R[root]._pydantic_rebuild(C[mode], force=True)\n"
        "_, top = models_json_schema([(s, 'validation') for s in [SerialHugr, Extension, Package]], title='HUGR schema')\n"
        "json.dump(top, sys.stdout)\n"
    )
    env = dict(os.environ, PYTHONPATH=os.path.join(REPO, "hugr-py", "src"))
    r = subprocess.run([sys.executable, "-c", code], env=env, capture_output=True, text=True, timeout=600)
    if r.returncode != 0:
        raise HarnessError("schema generation after a rebuild history failed: " + r.stderr[-500:])
    name = "hugr_schema_strict_live.json" if hist[-1][1] == "strict" else "hugr_schema_live.json"
    with open(os.path.join(REPO, "specification", "schema", name)) as f:
        p = normalise(json.load(f))
    g = normalise(json.loads(r.stdout))
    if g != p:
        path = first_diff(g, p) or "?"
        return [Fail("schema-files", f"depends-on-rebuild-history:{hist[-1][1]}:{path}", f"after {hist}: the models and {name} differ at {path}")]
    return []


def history_strategy(tier):
    step = st.tuples(st.sampled_from(["SerialHugr", "TestingHugr"]), st.sampled_from(["strict", "lax"])).map(list)
    return st.tuples(st.lists(step, min_size=1, max_size=3), st.sampled_from(["strict", "lax"])).map(lambda t: {"history": t[0] + [["SerialHugr", t[1]]]})


def enum_files(tier):
    for n in FILES:
        yield {"file": n}
    for n in FILES:
        yield {"fresh": n}
    yield {"version": True}
    yield {"keys": True}


def check_keys() -> list[Fail]:
    """The keys a model reads (field name, alias, validation alias choices, name when populate_by_name)
    are exactly the property names its published definition lists: an input key the schema does
    not know is invisible in the generated schema (only the first alias choice is printed)."""
    import importlib

    import pydantic

    defs: dict = {}
    for name in FILES:
        with open(os.path.join(REPO, "specification", "schema", name)) as f:
            doc = json.load(f)
        for k, v in doc.get("$defs", {}).items():
            defs.setdefault(k, v)
        if "title" in doc:
            defs.setdefault(doc["title"], doc)
    fails = []
    seen = 0
    for modname in ("tys", "ops", "serial_hugr", "testing_hugr", "extension"):
        mod = importlib.import_module("hugr._serialization." + modname)
        for cname, cls in sorted(vars(mod).items()):
            if not (isinstance(cls, type) and issubclass(cls, pydantic.BaseModel)) or issubclass(cls, pydantic.RootModel) or cls.__module__ != mod.__name__:
                continue
            d = defs.get(cname)
            if d is None or "properties" not in d:
                continue
            seen += 1
            reads = set()
            for fname, fi in cls.model_fields.items():
                va = fi.validation_alias
                if va is None:
                    reads.add(fi.alias or fname)
                elif isinstance(va, str):
                    reads.add(va)
                elif isinstance(va, pydantic.AliasChoices):
                    reads |= {c if isinstance(c, str) else repr(c) for c in va.choices}
                else:
                    reads.add(repr(va))
                if (fi.alias or va is not None) and (cls.model_config.get("populate_by_name") or cls.model_config.get("validate_by_name")):
                    reads.add(fname)
            props = set(d["properties"])
            if reads != props:
                fails.append(Fail("accepted-keys", f"{cname}:{'+'.join(sorted(reads ^ props))}", f"{cname} reads {sorted(reads)}, published properties {sorted(props)}"))
    if seen < 40:
        raise HarnessError(f"only {seen} model classes matched published definitions")
    return fails[:6]


def check_version(case) -> list[Fail]:
    if "file" in case:
        return check_file(case)
    if "keys" in case:
        return check_keys()
    if "fresh" in case:
        return check_fresh(case)
    from hugr._serialization.extension import Extension, Package
    from hugr._serialization.serial_hugr import SerialHugr, serialization_version
    from hugr._serialization.testing_hugr import TestingHugr

    v = SerialHugr.get_version()
    f = []
    if not (v == serialization_version() == Extension.get_version() == Package.get_version() == TestingHugr.get_version()):
        f.append(Fail("version", "models-disagree", v))
    for prefix in ("hugr_schema", "hugr_schema_strict", "testing_hugr_schema", "testing_hugr_schema_strict"):
        if not os.path.exists(os.path.join(REPO, "specification", "schema", f"{prefix}_{v}.json")):
            f.append(Fail("version", "file-name", f"{prefix}_{v}.json missing"))
    return f


# ------------------------------------------------------------------ differential

_workers: dict = {}
_validators: dict = {}


def worker(mode):
    w = _workers.get(mode)
    if w is None or w.poll() is not None:
        env = dict(os.environ, PYTHONPATH=os.path.join(REPO, "hugr-py", "src"))
        w = subprocess.Popen([sys.executable, os.path.join(VERIF, "tools", "schema_worker.py"), mode], stdin=subprocess.PIPE, stdout=subprocess.PIPE, text=True, env=env)
        if w.stdout.readline().strip() != "READY":
            raise HarnessError("schema worker did not start")
        _workers[mode] = w
        atexit.register(w.kill)
    return w


def pydantic_accepts(mode, kind, doc):
    w = worker(mode)
    w.stdin.write(json.dumps({"kind": kind, "doc": doc}) + "\n")
    w.stdin.flush()
    ans = w.stdout.readline().strip()
    if ans not in ("0", "1"):
        return ans
    return ans == "1"


def schema_accepts(mode, kind, doc):
    import jsonschema

    key = (mode, kind)
    if key not in _validators:
        name = "hugr_schema_strict_live.json" if mode == "strict" else "hugr_schema_live.json"  # the never-rebuilt decoder is judged by the lax schema
        with open(os.path.join(REPO, "specification", "schema", name)) as f:
            s = json.load(f)
        _validators[key] = jsonschema.Draft202012Validator({"$ref": f"#/$defs/{kind}", "$defs": s["$defs"]})
    return _validators[key].is_valid(doc)


# literals that are not bounds (some were bounds once, some are the enum's member names)
BOUND_LITERALS = ["X", "E", "L", "Eq", "c", "a", "Copyable", "Any", "Linear", ""]
DISCRIMINATORS = ("op", "t", "s", "tp", "tya", "v", "b")


def paths(doc, p=()):
    """Paths to dict nodes (never inside 'edges': tuples)."""
    if isinstance(doc, dict):
        yield p, doc
        for k, v in doc.items():
            if k == "edges":
                continue
            yield from paths(v, p + (k,))
    elif isinstance(doc, list):
        for i, v in enumerate(doc):
            yield from paths(v, p + (i,))


_last_shape = ["top"]


def mutate(doc, mut, sel1, sel2):
    """-> (mutated doc, path description) or None"""
    d = copy.deepcopy(doc)
    ps = list(paths(d))
    if mut == "top-level-unknown-key":
        d["zz_unknown_key"] = 1
        return d, ("$",)
    p, node = ps[sel1 % len(ps)]
    keys = sorted(node)
    if not keys:
        return None
    _last_shape[0] = shape_of(node)
    if mut == "delete-key":
        k = keys[sel2 % len(keys)]
        del node[k]
        return d, p + (k,)
    if mut == "unknown-discriminator":
        ks = [k for k in keys if k in DISCRIMINATORS and isinstance(node[k], str)]
        if not ks:
            return None
        k = ks[sel2 % len(ks)]
        node[k] = "Bogus"
        return d, p + (k,)
    if mut in ("container-to-string", "container-to-null"):
        ks = [k for k in keys if isinstance(node[k], dict | list) and k != "edges"]
        if not ks:
            return None
        k = ks[sel2 % len(ks)]
        node[k] = "zz" if mut == "container-to-string" else None
        return d, p + (k,)
    if mut == "unknown-bound":
        ks = [k for k in keys if k in ("b", "bound") and node[k] in ("C", "A")]
        if not ks:
            return None
        k = ks[sel2 % len(ks)]
        # a literal that is not a bound (some of them were bounds once, or are the enum's member names)
        node[k] = BOUND_LITERALS[(sel1 + sel2) % len(BOUND_LITERALS)]
        return d, p + (k,)
    return None


def base_doc(case):
    src = case["src"]
    if src["kind"] == "sink":
        # one fixed module holding every kind of node the builders make in a function body
        import hugr.ops as hops
        import hugr.tys as htys
        import hugr.val as hval
        from hugr.build.function import Module
        from hugr.std.int import IntVal
        from hugr.std.logic import Not

        m = Module()
        decl = m.declare_function("ext_fn", htys.PolyFuncType([htys.TypeTypeParam(htys.TypeBound.Copyable)], htys.FunctionType([htys.Variable(0, htys.TypeBound.Copyable)], [])))
        f = m.define_function("main", [htys.Bool, htys.Qubit], None)
        b, q = f.inputs()
        nb = f.add_op(Not, b, metadata={"k": 1})
        t = f.add_op(hops.MakeTuple(), nb, b)
        u = f.add_op(hops.UnpackTuple(), t)
        c = f.load(IntVal(3, 4))
        f.call(decl, b, instantiation=htys.FunctionType([htys.Bool], []), type_args=[htys.TypeTypeArg(htys.Bool)])
        lf = f.load_function(decl, instantiation=htys.FunctionType([htys.Bool], []), type_args=[htys.TypeTypeArg(htys.Bool)])
        tg = f.add_op(hops.Tag(1, htys.Sum([[htys.Bool], [htys.Bool, htys.Bool]])), u[0], u[1])
        cu = f.add_op(hops.Custom("op", htys.FunctionType([htys.Qubit], [htys.Qubit]), extension="my.ext", args=[htys.BoundedNatArg(2)]), q)
        with f.add_nested(b) as d:
            d.set_outputs(*d.inputs())
        f.set_outputs(cu[0], tg, c, lf)
        return "SerialHugr", json.loads(m.hugr.to_json())
    if src["kind"] == "fnconst":
        # a module whose constant is a function value (a nested HUGR document inside the document)
        import hugr.tys as htys
        import hugr.val as hval
        from hugr.build.dfg import Dfg
        from hugr.build.function import Module

        body = Dfg(htys.Bool)
        body.set_outputs(*body.inputs())
        m = Module()
        m.add_const(hval.Function(body.hugr))
        return "SerialHugr", json.loads(m.hugr.to_json())
    if src["kind"] == "hugr":
        r, _ = run_program(src["prog"])
        if r is None:
            raise InvalidCase("program does not build")
        return "SerialHugr", json.loads(r.hugr.to_json())
    if src["kind"] == "ext":
        return "Extension", json.loads(extgen.mk_extension(src["ext"]).to_json())
    from hugr.package import Package

    p = Package([modgen.mk_module(m) for m in src["modules"]], [extgen.mk_extension(e) for e in src["exts"]])
    return "Package", json.loads(p.to_bytes()[10:])


def check_diff(case) -> list[Fail]:
    kind, doc = base_doc(case)
    f: list[Fail] = []
    m = mutate(doc, case["mut"], case["sel1"], case["sel2"])
    docs = [("valid", doc, ("$",))]
    if m is not None:
        docs.append((case["mut"], m[0], m[1]))
    if case["mut"] != "top-level-unknown-key":
        # every document also with one unknown key at its top level (cheap, and the place where an entry point of
        # the decoder can differ from the models)
        docs.append(("top-level-unknown-key", dict(doc, zz_unknown_key=1), ("$",)))
    for what, d, path in docs:
        for mode in ("strict", "lax"):
            a = pydantic_accepts(mode, kind, d)
            b = schema_accepts(mode, kind, d)
            if isinstance(a, str):
                f.append(Fail("pydantic-error", f"{mode}:{a}", what))
                continue
            if what == "valid" and not (a and b):
                f.append(Fail("valid-document-rejected", f"{mode}:{kind}:{'pydantic' if not a else 'schema'}", ""))
            elif a != b:
                where = f"{_last_shape[0]}.{path[-1]}" if what != "top-level-unknown-key" else "top"
                f.append(Fail("disagree", f"{what}:{where}", f"{mode} {kind}: pydantic accepts={a} schema accepts={b} at {path}"))
    return f


def shape_of(node):
    for k in DISCRIMINATORS:
        if isinstance(node.get(k), str):
            return f"{k}={node[k]}"
    return "keys=" + ",".join(sorted(node))


def check_sweep(case) -> list[Fail]:
    """For one valid document: one mutation of every class at the first node of every distinct
    shape (discriminator value / key set) and every key of it."""
    kind, doc = base_doc(case)
    f: list[Fail] = []
    seen = set()
    n = 0
    for p, node in paths(doc):
        sh = shape_of(node)
        if ("unknown-key", sh) not in seen and p:
            # a key the schema does not know, once per shape: allowed by the lax schema, so the lax decoder and
            # the decoder as imported (never rebuilt: Hugr.load_json, envelopes) accept it
            seen.add(("unknown-key", sh))
            d = copy.deepcopy(doc)
            tgt = d
            for x in p:
                tgt = tgt[x]
            tgt["zz_unknown_key"] = 1
            n += 1
            for mode in ("lax", "default"):
                a = pydantic_accepts(mode, kind, d)
                b = schema_accepts("lax", kind, d)
                if isinstance(a, str):
                    f.append(Fail("pydantic-error", f"{mode}:{a}", "unknown-key"))
                elif a != b:
                    f.append(Fail("disagree", f"unknown-key:{mode}:{sh}", f"{mode} {kind}: decoder accepts={a} lax schema accepts={b} at {p}"))
        for k in sorted(node):
            muts = ["delete-key"]
            if k in DISCRIMINATORS and isinstance(node[k], str):
                muts.append("unknown-discriminator")
            if isinstance(node[k], dict | list) and k != "edges":
                muts += ["container-to-string", "container-to-null"]
            if k in ("b", "bound") and node[k] in ("C", "A"):
                muts += ["unknown-bound:" + lit for lit in BOUND_LITERALS]
            for mut in muts:
                key = (sh, k, mut)
                if key in seen:
                    continue
                seen.add(key)
                d = copy.deepcopy(doc)
                tgt = d
                for x in p:
                    tgt = tgt[x]
                if mut == "delete-key":
                    del tgt[k]
                elif mut == "unknown-discriminator":
                    tgt[k] = "Bogus"
                elif mut.startswith("unknown-bound:"):
                    tgt[k] = mut.split(":", 1)[1]
                else:
                    tgt[k] = "zz" if mut == "container-to-string" else None
                n += 1
                for mode in ("strict", "lax"):
                    a = pydantic_accepts(mode, kind, d)
                    b = schema_accepts(mode, kind, d)
                    if isinstance(a, str):
                        f.append(Fail("pydantic-error", f"{mode}:{a}", mut))
                    elif a != b:
                        f.append(Fail("disagree", f"{mut}:{sh}.{k}", f"{mode} {kind}: pydantic accepts={a} schema accepts={b} at {p + (k,)}"))
                if len(f) >= 6:
                    return f
    _sweep_counts.append(n)
    return f


_sweep_counts: list = []


def extra_evidence(tier):
    return {"sweep_mutations_checked": sum(_sweep_counts), "sweep_documents": len(_sweep_counts)}


def sweep_strategy(tier):
    return st.one_of(
        proggen.programs(size=6 if tier == "quick" else 12, max_depth=1, detached=False).map(lambda p: {"src": {"kind": "hugr", "prog": p}}),
        extgen.extensions(max_defs=3, min_ops=1, min_types=1).map(lambda e: {"src": {"kind": "ext", "ext": e}}),
        st.tuples(st.lists(modgen.modules(1, max_funcs=1), max_size=1), extgen.extensions(max_defs=2)).map(lambda t: {"src": {"kind": "pkg", "modules": t[0], "exts": [t[1]]}}),
    )


def nt_diff(case):
    kind, doc = "", None
    try:
        kind, doc = base_doc(case)
    except Exception:  # noqa: BLE001
        return False
    m = mutate(doc, case["mut"], case["sel1"], case["sel2"])
    if m is None:
        return False
    p = m[1]
    return any(x in ("nodes", "signature", "v", "typ", "operations", "types", "typed_value", "body") for x in p)


def diff_strategy(tier):
    src = st.one_of(
        proggen.programs(size=8, max_depth=1, detached=False).map(lambda p: {"kind": "hugr", "prog": p}),
        extgen.extensions(max_defs=2).map(lambda e: {"kind": "ext", "ext": e}),
        st.tuples(st.lists(modgen.modules(1, max_funcs=2), max_size=2), extgen.extensions(max_defs=2)).map(lambda t: {"kind": "pkg", "modules": t[0], "exts": [t[1]]}),
    )
    return st.fixed_dictionaries(
        {
            "src": src,
            "mut": st.sampled_from(["delete-key", "delete-key", "unknown-discriminator", "container-to-string", "container-to-null", "unknown-bound", "top-level-unknown-key"]),
            "sel1": st.integers(0, 400),
            "sel2": st.integers(0, 10),
        }
    )


def _deletes_version(case) -> bool:
    return True


# ------------------------------------------------------------------ the strict configuration reaches every nested model


def check_strict(case) -> list[Fail]:
    """Strict configuration only (the lax decoder coerces scalars and keeps unknown keys by design): a key
    the schema does not know, or an integer written as a string, at a generated place of a valid HUGR
    document must be judged alike by the strict decoder and the strict schema."""
    kind, doc = base_doc(case)
    d = copy.deepcopy(doc)
    ps = [(p, n) for p, n in paths(d) if (len(p) >= 2 and p[0] == "nodes") == (case["where"] == "nested") and (case["where"] == "nested" or p == ())]
    if not ps:
        raise InvalidCase("no such place")
    p, node = ps[case["sel1"] % len(ps)]
    if case["mut"] == "unknown-key":
        node["zz_unknown_key"] = 1
        at = p + ("zz_unknown_key",)
    else:
        ks = [k for k in sorted(node) if isinstance(node[k], int) and not isinstance(node[k], bool)]
        if not ks:
            raise InvalidCase("no integer field")
        k = ks[case["sel2"] % len(ks)]
        node[k] = str(node[k])
        at = p + (k,)
    out = []
    a = pydantic_accepts("strict", kind, d)
    b = schema_accepts("strict", kind, d)
    if isinstance(a, str):
        return [Fail("pydantic-error", f"strict:{a}", case["mut"])]
    if a != b:
        out.append(Fail("strict-config", f"{case['mut']}:{case['where']}:{'decoder' if a else 'schema'}-accepts", f"strict {kind}: decoder accepts={a} schema accepts={b} at {at}"))
    if case["mut"] == "unknown-key":
        # unknown keys are what the lax schema allows: the lax decoder and the decoder as imported (the one that
        # Hugr.load_json and the envelope reader use) accept them too
        for mode in ("lax", "default"):
            a2 = pydantic_accepts(mode, kind, d)
            b2 = schema_accepts("lax", kind, d)
            if isinstance(a2, str):
                out.append(Fail("pydantic-error", f"{mode}:{a2}", case["mut"]))
            elif a2 != b2:
                out.append(Fail("disagree", f"unknown-key:{mode}:{shape_of(node)}:{'decoder' if a2 else 'schema'}-accepts", f"{mode} {kind}: decoder accepts={a2} lax schema accepts={b2} at {at}"))
    return out


def strict_strategy(tier):
    return st.fixed_dictionaries(
        {
            "src": proggen.programs(size=8, max_depth=1, detached=False).map(lambda p: {"kind": "hugr", "prog": p}),
            "mut": st.sampled_from(["unknown-key", "int-as-string"]),
            "where": st.sampled_from(["nested", "nested", "nested", "top"]),
            "sel1": st.integers(0, 400),
            "sel2": st.integers(0, 10),
        }
    )


REQUIRES = {"deletes-top-level-version": _deletes_version, "strict-config-inside-unions": lambda case: case.get("where") == "nested"}

SUBS = [
    Sub("sweep", check_sweep, enumerate=lambda tier: iter([{"src": {"kind": "fnconst"}}, {"src": {"kind": "sink"}}]), strategy=sweep_strategy, nontrivial=lambda c: True, classes=lambda c: [c["src"]["kind"]], n_quick=5, n_thorough=40, sample_ok=lambda c: len(json.dumps(c)) < 2500),
    Sub("files", check_version, enumerate=enum_files, nontrivial=lambda c: True, exhaustive=True, shardable=False),
    Sub("rebuild-histories", check_history, enumerate=lambda tier: iter([{"history": [["SerialHugr", x], ["TestingHugr", y], ["SerialHugr", x]]} for x, y in (("strict", "lax"), ("lax", "strict"))] + [{"history": [["TestingHugr", y], ["SerialHugr", x]]} for x, y in (("strict", "lax"), ("lax", "strict"))]), strategy=history_strategy, nontrivial=lambda c: len(c["history"]) >= 3, classes=lambda c: ["ends-" + c["history"][-1][1]], n_quick=4, n_thorough=80),
    Sub("strict-config", check_strict, strategy=strict_strategy, nontrivial=lambda c: c["where"] == "nested", classes=lambda c: [c["mut"] + ":" + c["where"]], n_quick=60, n_thorough=600,
        sample_ok=lambda c: len(json.dumps(c)) < 2500),
    Sub("differential", check_diff, strategy=diff_strategy, nontrivial=nt_diff, classes=lambda c: [c["mut"], c["src"]["kind"]], n_quick=150, n_thorough=1500, sample_ok=lambda c: len(json.dumps(c)) < 2500),
]
