"""C09 Package envelopes round-trip and carry the documented header."""

from __future__ import annotations

import json

from hypothesis import strategies as st

from vlib import extgen, modgen
from vlib.runner import Fail, InvalidCase, Sub, exc_fail

PROPERTY_ID = "C09"
RULE = (
    "packages sub-check: generated packages (0..3 generated modules: functions over generated type rows, declarations, "
    "constants, aliases, non-ASCII names/metadata; 0..2 generated extensions) x configurations (every format member, "
    "zstd in {None, 0, -7..22}); formats whose encoder is absent in this build (MODULE*: native model encoder) are "
    "counted and skipped. Oracle: bytes 0-7 magic, byte 8 format value, byte 9 bit0 == compressed and bits 7,6 == 0,1; "
    "compressed payload decompresses to the uncompressed payload; from_bytes(to_bytes) / from_str(to_str) give the same "
    "number and order of modules and extensions, each re-serializing to the identical JSON; to_str raises ValueError "
    "for non-ASCII-printable formats. header sub-check (exhaustive): all 65 536 (format, flags) byte pairs, all "
    "truncations 0..9 and all single-byte corruptions of the magic through EnvelopeHeader.from_bytes and "
    "Package.from_bytes. Non-trivial = package with a module of >= 5 nodes, an extension, or non-ASCII text; header "
    "cases: unknown format or set reserved bits; distinct by canonical JSON."
)
ASSUMPTIONS = ["pyzstd decompression is trusted", "the reserved flag bits 1-5 are not constrained by the statement and not asserted on output"]

MAGIC = b"HUGRiHJv"
EMPTY_PKG = b'{"modules":[],"extensions":[]}'


def pkg_doc(p):
    """The package as a document, composed from the documents of its current modules and extensions
    (not from the package's own serializer)."""
    return {"modules": [json.loads(m._to_serial().model_dump_json()) for m in p.modules], "extensions": [json.loads(e._to_serial().model_dump_json()) for e in p.extensions]}


def check_pkg(case) -> list[Fail]:
    import pyzstd
    from hugr.envelope import EnvelopeConfig, EnvelopeFormat
    from hugr.package import Package

    f: list[Fail] = []
    mods = [modgen.mk_module(m) for m in case["modules"]]
    exts = [extgen.mk_extension(e) for e in case["exts"]]
    if case["exts"] and case["cut"] % 3 == 0:
        # a package may list two versions of one extension: both are kept, in their positions
        exts.append(extgen.mk_extension(dict(case["exts"][0], version=[9, 9, 9], vsuffix="")))
    if mods and exts and exts[0].operations:
        # a node of the first module names an operation of the first bundled extension, with a description of its
        # own: decoding the package does not resolve (and so does not rewrite) the modules
        import hugr.ops as hops
        import hugr.tys as htys

        od = next(iter(exts[0].operations.values()))
        mods[0].add_node(hops.Custom(op_name=od.name, signature=htys.FunctionType([], []), description="the node's own description", extension=exts[0].name), mods[0].root)
    p = Package(mods, exts)
    try:
        fmt = {"JSON": EnvelopeFormat.JSON, "MODULE": EnvelopeFormat.MODULE, "MODULE_WITH_EXTS": EnvelopeFormat.MODULE_WITH_EXTS}[case["format"]]
    except KeyError as e:
        raise InvalidCase from e
    cfg = EnvelopeConfig(format=fmt, zstd=case["zstd"])
    doc = pkg_doc(p)
    # text encoding is offered only for ASCII-printable formats
    if fmt != EnvelopeFormat.JSON:
        try:
            p.to_str(cfg)
            f.append(Fail("to_str", "non-printable-format-accepted", case["format"]))
        except ValueError:
            pass
        except Exception as e:  # noqa: BLE001
            f.append(Fail("to_str", "non-printable-format-wrong-error", f"{type(e).__name__}"))
        try:
            b = p.to_bytes(cfg)
        except Exception:  # noqa: BLE001
            return f  # cannot be encoded in this build (no native model encoder): outside the statement
        # if it can be encoded, the header rules apply
        return f + header_rules(b, fmt.value, case["zstd"])
    try:
        b = p.to_bytes(cfg)
    except Exception as e:  # noqa: BLE001
        return f + [exc_fail("to_bytes", e)]
    f += header_rules(b, 63, case["zstd"])
    plain = p.to_bytes(EnvelopeConfig(format=fmt, zstd=None))[10:]
    if case["zstd"] is not None:
        try:
            if pyzstd.decompress(b[10:]) != plain:
                f.append(Fail("payload", "decompressed-differs", ""))
        except Exception as e:  # noqa: BLE001
            f.append(Fail("payload", "not-zstd", f"{type(e).__name__}"))
    elif b[10:] != plain:
        f.append(Fail("payload", "nondeterministic", ""))
    if json.loads(plain) != doc:
        f.append(Fail("payload", "not-the-package-document", ""))
    try:
        p2 = Package.from_bytes(b)
    except Exception as e:  # noqa: BLE001
        return f + [exc_fail("from_bytes", e)]
    f += same_package(p2, doc, "bytes")
    if len(b) > 12:
        # decoding is a function of its input: an envelope cut inside its payload is refused (or, for a
        # cut that happens to be a document, decoded) and the intact one still decodes afterwards
        cut = 10 + (case.get("cut", 7) % (len(b) - 10))
        try:
            Package.from_bytes(b[:cut])
        except Exception:  # noqa: BLE001 - the kind of rejection of a damaged payload is not specified
            pass
        try:
            f += [Fail(x.clause, "after-rejected-input:" + x.locus, x.msg) for x in same_package(Package.from_bytes(b), doc, "bytes")]
        except Exception as e:  # noqa: BLE001
            f.append(Fail("from_bytes", "intact-envelope-refused-after-a-rejected-one", f"{type(e).__name__}: {e}"[:200]))
    # the package is what it holds when it is encoded: one more module after a first encoding shows up
    try:
        from hugr.build.function import Module as _Module

        extra = _Module()
        extra.declare_function("added_later", __import__("hugr").tys.PolyFuncType([], __import__("hugr").tys.FunctionType([], [])))
        p.modules.append(extra.hugr)
        doc_later = pkg_doc(p)
        f += [Fail(x.clause, "after-a-module-was-added:" + x.locus, x.msg) for x in same_package(Package.from_bytes(p.to_bytes(cfg)), doc_later, "bytes")]
        p.modules.pop()
    except Exception as e:  # noqa: BLE001
        f.append(exc_fail("encode-again", e))
    if case["zstd"] is None:
        try:
            s = p.to_str(cfg)
            p3 = Package.from_str(s)
            f += same_package(p3, doc, "str")
            if s.encode("utf-8") != b:
                f.append(Fail("to_str", "differs-from-bytes", ""))
        except Exception as e:  # noqa: BLE001
            f.append(exc_fail("to_str", e))
    else:
        # JSON + zstd as text: either it cannot be encoded (ValueError) or the string decodes back
        try:
            s2 = p.to_str(cfg)
        except ValueError:
            s2 = None
        except Exception as e:  # noqa: BLE001
            f.append(exc_fail("to_str-compressed", e))
            s2 = None
        if s2 is not None:
            try:
                f += same_package(Package.from_str(s2), doc, "str-compressed")
            except Exception as e:  # noqa: BLE001
                f.append(Fail("to_str", "compressed-text-does-not-decode", f"{type(e).__name__}: {e}"[:200]))
    # default configurations
    try:
        f += same_package(Package.from_bytes(p.to_bytes()), doc, "default-bytes")
        f += same_package(Package.from_str(p.to_str()), doc, "default-str")
    except Exception as e:  # noqa: BLE001
        f.append(exc_fail("default-config", e))
    return f


def header_rules(b: bytes, fmt_value: int, zstd) -> list[Fail]:
    f = []
    if b[:8] != MAGIC:
        f.append(Fail("header", "magic", repr(b[:8])))
    if len(b) < 10:
        return f + [Fail("header", "too-short", str(len(b)))]
    if b[8] != fmt_value:
        f.append(Fail("header", "format-byte", f"{b[8]} != {fmt_value}"))
    if (b[9] & 1) != (0 if zstd is None else 1):
        f.append(Fail("header", "zstd-flag", f"flags={b[9]:08b} zstd={zstd}"))
    if (b[9] >> 6) != 0b01:
        f.append(Fail("header", "constant-bits", f"flags={b[9]:08b}"))
    return f


def same_package(p2, doc, via) -> list[Fail]:
    d2 = pkg_doc(p2)
    if len(d2["modules"]) != len(doc["modules"]) or len(d2["extensions"]) != len(doc["extensions"]):
        return [Fail("round-trip", f"{via}:counts", f"{len(d2['modules'])}/{len(d2['extensions'])}")]
    out = []
    for i, (a, b) in enumerate(zip(d2["modules"], doc["modules"])):
        if a != b:
            from vlib.props.c05 import first_diff

            out.append(Fail("round-trip", f"{via}:module:{first_diff(a, b)}", f"module {i} differs"))
    for i, (a, b) in enumerate(zip(d2["extensions"], doc["extensions"])):
        if a != b:
            from vlib.props.c05 import first_diff
            from vlib.props.c10 import _norm_locus

            out.append(Fail("round-trip", f"{via}:extension:{_norm_locus(first_diff(a, b) or '?')}", f"extension {i} differs"))
    return out


def has_non_ascii(x) -> bool:
    return any(ord(ch) > 127 for ch in json.dumps(x, ensure_ascii=False))


def nt_pkg(case) -> bool:
    return any(modgen.n_nodes(m) >= 5 for m in case["modules"]) or bool(case["exts"]) or has_non_ascii(case)


def cls_pkg(case):
    out = [case["format"], "zstd=None" if case["zstd"] is None else ("zstd=0" if case["zstd"] == 0 else "zstd=level")]
    out.append(f"modules={len(case['modules'])}")
    out.append(f"exts={len(case['exts'])}")
    if has_non_ascii(case):
        out.append("non-ascii")
    return out


def pkg_strategy(tier):
    @st.composite
    def s(draw):
        names = draw(st.lists(extgen.EXTN, max_size=2, unique=True))
        return {
            "modules": draw(st.lists(modgen.modules(1), max_size=3)),
            "exts": [draw(extgen.extensions(name=n, max_defs=2)) for n in names],
            "format": draw(st.sampled_from(["JSON", "JSON", "JSON", "JSON", "MODULE", "MODULE_WITH_EXTS"])),
            "zstd": draw(st.one_of(st.none(), st.just(0), st.integers(-7, 22))),
            "cut": draw(st.integers(0, 4000)),
        }

    return s()


# ------------------------------------------------------------------ header decoder


def check_header(case) -> list[Fail]:
    import pyzstd
    from hugr.envelope import EnvelopeFormat, EnvelopeHeader
    from hugr.package import Package

    f: list[Fail] = []
    if "pair" in case:
        fmt, flags = case["pair"]
        data = MAGIC + bytes([fmt, flags])
        known = fmt in (1, 2, 63)
        try:
            h = EnvelopeHeader.from_bytes(data + b"xyz")
            if not known:
                f.append(Fail("header-decode", "unknown-format-accepted", f"fmt={fmt}"))
            elif h.format.value != fmt or h.zstd != bool(flags & 1):
                f.append(Fail("header-decode", "wrong-fields", f"fmt={fmt} flags={flags:08b} -> {h}"))
        except ValueError:
            if known:
                f.append(Fail("header-decode", "known-format-rejected", f"fmt={fmt} flags={flags:08b}"))
        except Exception as e:  # noqa: BLE001
            f.append(Fail("header-decode", "wrong-error", f"fmt={fmt}: {type(e).__name__}"))
        payload = pyzstd.compress(EMPTY_PKG) if flags & 1 else EMPTY_PKG
        try:
            p = Package.from_bytes(data + payload)
            if fmt != 63:
                f.append(Fail("package-decode", "non-json-format-decoded", f"fmt={fmt}"))
            elif p.modules or p.extensions:
                f.append(Fail("package-decode", "wrong-package", ""))
        except ValueError:
            if fmt == 63:
                f.append(Fail("package-decode", "json-rejected", f"flags={flags:08b}"))
        except Exception as e:  # noqa: BLE001
            f.append(Fail("package-decode", "wrong-error", f"fmt={fmt} flags={flags:08b}: {type(e).__name__}"))
        return f
    if "truncate" in case:
        data = (MAGIC + bytes([63, 0b01000000]))[: case["truncate"]]
    elif "corrupt" in case:
        pos, val = case["corrupt"]
        b = bytearray(MAGIC + bytes([63, 0b01000000]) + EMPTY_PKG)
        if b[pos] == val:
            return []
        b[pos] = val
        data = bytes(b)
    else:
        raise InvalidCase
    for name, fn in (("EnvelopeHeader.from_bytes", EnvelopeHeader.from_bytes), ("Package.from_bytes", Package.from_bytes)):
        try:
            fn(data)
            f.append(Fail("reject", f"{name}:accepted", f"{data[:12]!r}"))
        except ValueError:
            pass
        except Exception as e:  # noqa: BLE001
            f.append(Fail("reject", f"{name}:wrong-error", f"{type(e).__name__}"))
    return f


def enum_header(tier):
    for fmt in range(256):
        for flags in range(256):
            yield {"pair": [fmt, flags]}
    for n in range(10):
        yield {"truncate": n}
    for pos in range(8):
        for v in range(256):
            yield {"corrupt": [pos, v]}


def nt_header(case):
    if "pair" in case:
        fmt, flags = case["pair"]
        return fmt not in (1, 2, 63) or (flags & 0b00111110) != 0 or (flags >> 6) != 1
    return True


SUBS = [
    Sub("packages", check_pkg, strategy=pkg_strategy, nontrivial=nt_pkg, classes=cls_pkg, n_quick=250, n_thorough=1500),
    Sub("header", check_header, enumerate=enum_header, nontrivial=nt_header, exhaustive=True, shardable=True, sample_ok=lambda c: True),
]
