"""C11 Extension resolution is conservative, idempotent and invisible on the wire."""

from __future__ import annotations

import json

from hypothesis import strategies as st

from vlib import asts, extgen, ref
from vlib.asts import weighted
from vlib.interp import mk_arg, mk_row, mk_type
from vlib.runner import Fail, InvalidCase, Sub, exc_fail

PROPERTY_ID = "C11"
RULE = (
    "case = pool of generated extensions (type defs with explicit / from-params bounds, op defs) + a module whose "
    "function bodies hold extension ops (pool ops and std ops) with generated concrete signatures and type arguments "
    "in which pool / std extension types are nested inside sums, function types, type arguments and arguments of "
    "extension types; the HUGR is serialized and loaded (so everything is opaque) and resolved against a generated "
    "registry: any subset of the pool, each extension optionally stripped of some definitions, optionally the std "
    "extensions. Oracle: a node becomes a definition-backed op iff the registry has extension and op; inside a "
    "resolved op every opaque type at every depth is replaced iff the registry has extension and type; everything else "
    "is untouched; to_json is unchanged except description in {original, definition's}; to_model unchanged; "
    "signatures, port types and bounds unchanged; resolving twice == once; same for Type.resolve / TypeArg.resolve on "
    "bare expressions. Non-trivial = >= 1 resolvable and >= 1 unresolvable opaque and nesting depth >= 2; distinct by "
    "canonical JSON."
)
ASSUMPTIONS = ["resolution does not validate arguments against definitions (not claimed by the statement)"]


# ------------------------------------------------------------------ generation


def respell(t):
    """The same type(s) in the other spelling of unit sums."""
    if isinstance(t, list):
        return [respell(x) for x in t]
    if not isinstance(t, dict):
        return t
    if t.get("k") == "bool":
        return {"k": "sum", "rows": [[], []]}
    if t.get("k") == "unit":
        return {"k": "sum", "rows": [[]]}
    if t.get("k") == "unitsum":
        return {"k": "sum", "rows": [[] for _ in range(t["n"])]}
    return {k: respell(v) for k, v in t.items()}


@st.composite
def cases(draw, tier="quick"):
    n_ext = draw(st.integers(1, 3))
    # pool extension names are disjoint from the names used by arbitrary opaque types, so that an
    # opaque type never claims a bound that contradicts a pool definition of the same name
    names = ["pool." + n for n in draw(st.lists(extgen.EXTN, min_size=n_ext, max_size=n_ext, unique=True))]
    pool = [draw(extgen.extensions(name=n, max_defs=3, min_ops=1, min_types=1)) for n in names]
    for e in pool:
        e["values"] = []
        for td in e["types"]:
            # from-params bounds naming no parameter (join of nothing = copyable) are rare in the
            # shared generator; resolution must not change them either
            if td["bound"]["b"] == "F" and draw(st.integers(0, 3)) == 0:
                td["bound"] = {"b": "F", "idx": []}
    forced = None
    if draw(st.booleans()):
        # one definition without parameters whose bound is the join over nothing (= copyable), used below
        forced = pool[0]["types"][0]
        forced["params"] = []
        forced["bound"] = {"b": "F", "idx": []}
    tdefs = [dict(td) for e in pool for td in e["types"]]

    def ext_type(depth):
        @st.composite
        def s(d):
            td = d(st.sampled_from(tdefs))
            a = []
            for p in td["params"]:
                if p["k"] == "type":
                    inner = types_p(depth - 1) if depth > 0 else asts.types(0, copy_only=(p["b"] == "C"))
                    t = d(inner)
                    if p["b"] == "C" and ref.ref_bound(t) != "C":
                        t = {"k": "bool"}
                    a.append({"k": "type", "t": t})
                else:
                    a.append(d(asts.arg_for_param(p, 1)))
            return {"k": "ext", "def": td, "args": a}

        return s()

    def types_p(depth):
        base = asts.types(1)
        if depth <= 0:
            return weighted((1, base), (2, ext_type(0)))
        sub = st.deferred(lambda: types_p(depth - 1))
        row = st.lists(sub, max_size=2)
        return weighted(
            (1, base),
            (3, ext_type(depth)),
            (1, row.map(lambda ts: {"k": "tuple", "ts": ts})),
            (1, st.lists(row, min_size=1, max_size=2).map(lambda rs: {"k": "sum", "rows": rs})),
            (1, st.tuples(row, row).map(lambda io: {"k": "fn", "i": io[0], "o": io[1], "reqs": []})),
            (1, row.map(lambda ts: {"k": "fn", "i": [{"k": "bool"}, *ts], "o": respell([{"k": "bool"}, *ts]), "reqs": []})),
            (1, st.tuples(asts.EXT_NAMES, asts.NAMES, st.lists(sub.map(lambda t: {"k": "type", "t": t}), max_size=2)).map(lambda x: {"k": "opaque", "ext": "unknown." + x[0], "id": x[1], "args": x[2], "b": "A"})),
            (1, sub.map(lambda t: {"k": "list", "t": t})),
            (1, st.sampled_from(tdefs).map(lambda td: {"k": "opaque", "ext": td["ext"], "id": td["ext"] + "." + td["name"], "args": [], "b": "A"})),
        )

    depth = 2 if tier == "quick" else 3
    T = types_p(depth)
    ops = []
    all_ops = [(e["name"], od["name"]) for e in pool for od in e["ops"]]
    for _ in range(draw(st.integers(2, 5))):
        kind = draw(st.sampled_from(["pool", "pool", "pool", "pool", "std", "unknown"]))
        i, o = draw(st.lists(T, min_size=1, max_size=2)), draw(st.lists(T, max_size=2))
        if draw(st.integers(0, 3)) == 0:
            # output row == input row as objects, in the other spelling of unit sums
            i = [{"k": "bool"}, *i]
            o = respell(i)
        args = draw(st.lists(st.one_of(T.map(lambda t: {"k": "type", "t": t}), st.lists(T.map(lambda t: {"k": "type", "t": t}), max_size=2).map(lambda es: {"k": "seq", "es": es}), asts.args(0)), max_size=2))
        if kind == "pool":
            en, on = draw(st.sampled_from(all_ops))
            od = next(x for e in pool if e["name"] == en for x in e["ops"] if x["name"] == on)
            if od["params"] == [] and draw(st.integers(0, 2)) == 0:
                # the node's signature is the definition's monomorphic one, written differently where the data
                # model has two spellings of one type (Bool / two empty rows, Unit / one empty row) and with
                # the same requirements: equal as objects, different on the wire
                reqs = list(dict.fromkeys([*od["reqs"], en]))
                ops.append({"ext": en, "name": on, "i": respell(od["i"]), "o": respell(od["o"]), "reqs": reqs, "args": [], "desc": draw(asts.DESCS), "respelled": True})
            elif draw(st.integers(0, 4)) == 0:
                # "<extension>.<name>" is not the name of the definition "<name>"
                ops.append({"ext": en, "name": en + "." + on, "i": i, "o": o, "args": args, "desc": draw(asts.DESCS)})
            else:
                ops.append({"ext": en, "name": on, "i": i, "o": o, "args": args, "desc": draw(asts.DESCS)})
        elif kind == "std":
            ops.append({"std": draw(st.sampled_from(["Not", "MakeTuple", "Noop", "DivMod"])), "ts": draw(st.lists(T, max_size=2)), "w": draw(st.integers(0, 6))})
        else:
            ops.append({"ext": "nowhere.ext", "name": "op", "i": i, "o": o, "args": args, "desc": ""})
    reg = []
    for e in pool:
        if draw(st.integers(0, 3)) == 0:
            continue
        reg.append(
            {
                "ext": e["name"],
                "drop_types": draw(st.lists(st.sampled_from([t["name"] for t in e["types"]]), max_size=2, unique=True)),
                "drop_ops": draw(st.lists(st.sampled_from([o["name"] for o in e["ops"]]), max_size=1, unique=True)),
            }
        )
    bare = draw(st.lists(T, max_size=2))
    if forced is not None:
        bare.append({"k": "tuple", "ts": [{"k": "ext", "def": dict(forced), "args": []}]})
    return {"pool": pool, "ops": ops, "registry": reg, "std": draw(st.booleans()), "bare": bare}


# ------------------------------------------------------------------ interpretation


def build(case):
    """-> (loaded hugr, registry, has_op(ext,name), has_type(ext,name))"""
    import hugr.ext as hext
    import hugr.ops as ops
    import hugr.tys as tys
    from hugr.build.function import Module
    from hugr.hugr import Hugr

    pool = {e["name"]: extgen.mk_extension(e) for e in case["pool"]}
    # type defs referenced by the type ASTs must be the pool's: patch interp's cache
    from vlib import interp

    interp._EXT_CACHE.clear()
    for e in case["pool"]:
        for td in e["types"]:
            interp._EXT_CACHE[json.dumps(td, sort_keys=True)] = pool[e["name"]].types[td["name"]]
    m = Module()
    f = m.define_function("f", [], [])
    for o in case["ops"]:
        if "std" in o:
            from vlib.interp import mk_op

            k = o["std"]
            op = mk_op({"k": "Not"} if k == "Not" else {"k": "DivMod", "w": o["w"]} if k == "DivMod" else {"k": "MakeTuple", "ts": o["ts"]} if k == "MakeTuple" else {"k": "Noop", "t": (o["ts"] or [{"k": "bool"}])[0]})
        elif o["ext"] in pool:
            op = ops.Custom(op_name=o["name"], signature=tys.FunctionType(mk_row(o["i"]), mk_row(o["o"]), list(o.get("reqs", []))), description=o["desc"], extension=o["ext"], args=[mk_arg(a) for a in o["args"]])
        else:
            op = ops.Custom(op_name=o["name"], signature=tys.FunctionType(mk_row(o["i"]), mk_row(o["o"])), description=o["desc"], extension=o["ext"], args=[mk_arg(a) for a in o["args"]])
        m.hugr.add_node(op, f.parent_node)
    f.set_outputs()
    h = Hugr.load_json(m.hugr.to_json())
    # registry
    reg = hext.ExtensionRegistry()
    have_ops, have_types = set(), set()
    for r in case["registry"]:
        src = next(e for e in case["pool"] if e["name"] == r["ext"])
        a = dict(src, types=[t for t in src["types"] if t["name"] not in r["drop_types"]], ops=[o for o in src["ops"] if o["name"] not in r["drop_ops"]])
        reg.add_extension(extgen.mk_extension(a))
        have_ops |= {(a["name"], o["name"]) for o in a["ops"]}
        have_types |= {(a["name"], t["name"]) for t in a["types"]}
    if case["std"]:
        import hugr.std.collections.array as sa
        import hugr.std.collections.list as sl
        import hugr.std.collections.static_array as ssa
        import hugr.std.float as sf
        import hugr.std.int as si
        import hugr.std.logic as slog
        from hugr.std import PRELUDE

        for e in (PRELUDE, si.INT_TYPES_EXTENSION, si.INT_OPS_EXTENSION, sf.FLOAT_TYPES_EXTENSION, sa.EXTENSION, sl.EXTENSION, ssa.EXTENSION, slog.EXTENSION):
            if e.name not in reg.extensions:
                reg.add_extension(e)
                have_ops |= {(e.name, k) for k in e.operations}
                have_types |= {(e.name, k) for k in e.types}
    return h, reg, have_ops, have_types


def ttree(t):
    import hugr.tys as tys

    if isinstance(t, tys.ExtType):
        return ["ExtType", t.type_def.get_extension().name, t.type_def.name, [atree(a) for a in t.args]]
    if isinstance(t, tys.Opaque):
        return ["Opaque", t.extension, t.id, [atree(a) for a in t.args]]
    if isinstance(t, tys.Sum):
        return ["Sum", [[ttree(x) for x in r] for r in t.variant_rows]]
    if isinstance(t, tys.FunctionType):
        return ["Fn", [ttree(x) for x in t.input], [ttree(x) for x in t.output]]
    return ["leaf", repr(t)]


def atree(a):
    import hugr.tys as tys

    if isinstance(a, tys.TypeTypeArg):
        return ["T", ttree(a.ty)]
    if isinstance(a, tys.SequenceArg):
        return ["S", [atree(e) for e in a.elems]]
    return ["leaf", repr(a)]


def expect_tree(tr, have_types):
    """Expected tree after resolution of an (unresolved) tree."""
    k = tr[0]
    if k == "Opaque":
        cls = "ExtType" if (tr[1], tr[2]) in have_types else "Opaque"
        return [cls, tr[1], tr[2], [expect_tree(a, have_types) for a in tr[3]]]
    if k == "ExtType":
        return [k, tr[1], tr[2], [expect_tree(a, have_types) for a in tr[3]]]
    if k == "Sum":
        return ["Sum", [[expect_tree(x, have_types) for x in r] for r in tr[1]]]
    if k == "Fn":
        return ["Fn", [expect_tree(x, have_types) for x in tr[1]], [expect_tree(x, have_types) for x in tr[2]]]
    if k == "T":
        return ["T", expect_tree(tr[1], have_types)]
    if k == "S":
        return ["S", [expect_tree(x, have_types) for x in tr[1]]]
    return tr


def first_tree_diff(a, b, path="$", depth=0):
    if a == b:
        return None
    if not isinstance(a, list) or not isinstance(b, list) or len(a) != len(b):
        return path, depth
    if a and isinstance(a[0], str) and isinstance(b[0], str):
        if a[0] != b[0]:
            return f"{path}:{b[0]}->{a[0]}", depth
        for i in range(1, len(a)):
            d = first_tree_diff(a[i], b[i], path + "/" + a[0], depth + 1)
            if d:
                return d
        return None
    for x, y in zip(a, b):
        d = first_tree_diff(x, y, path, depth)
        if d:
            return d
    return path, depth


def count_opaques(tr, have_types):
    """(resolvable, unresolvable, max nesting depth) of opaque types in a tree."""
    res = unres = 0
    maxd = 0

    def walk(x, d):
        nonlocal res, unres, maxd
        if isinstance(x, list):
            if x and x[0] in ("Opaque", "ExtType"):
                if x[0] == "Opaque":
                    if (x[1], x[2]) in have_types:
                        res += 1
                    else:
                        unres += 1
                    maxd = max(maxd, d)
                for a in x[3]:
                    walk(a, d + 1)
                return
            for y in x:
                walk(y, d + (1 if x and x[0] in ("Sum", "Fn", "S", "T") else 0))

    walk(tr, 0)
    return res, unres, maxd


def node_doc(h, n):
    from vlib.store import enc_op_of

    return enc_op_of(h, n)


def check(case) -> list[Fail]:
    import hugr.ops as ops
    import hugr.tys as tys
    from hugr.hugr import Hugr

    f: list[Fail] = []
    h, reg, have_ops, have_types = build(case)
    doc0 = json.loads(h.to_json())
    try:
        model0 = repr(h.to_model())
    except Exception as e:  # noqa: BLE001
        raise InvalidCase(f"unresolved export raises: {e}") from e
    before = {}
    for n in h:
        op = h[n].op
        if isinstance(op, ops.Custom):
            before[n.idx] = (op, ttree(op.signature), [atree(a) for a in op.args], json.loads(op.signature._to_serial_root().model_dump_json()), op.description)
    try:
        r = h.resolve_extensions(reg)
    except Exception as e:  # noqa: BLE001
        return [exc_fail("resolve-raises", e)]
    if r is not h:
        f.append(Fail("resolve", "returns-other-object", ""))
    for i, (op0, sig0, args0, sigdoc0, desc0) in before.items():
        from hugr.hugr.node_port import Node

        op1 = h[Node(i)].op
        want_res = (op0.extension, op0.op_name) in have_ops
        if want_res != isinstance(op1, ops.ExtOp):
            f.append(Fail("resolve-op", "resolved-iff-defined", f"node {i} {op0.extension}.{op0.op_name}: defined={want_res} got {type(op1).__name__}"))
            continue
        if not want_res:
            if op1 is not op0:
                f.append(Fail("resolve-op", "unresolvable-op-changed", f"node {i}"))
            continue
        if op1._op_def is not reg.get_extension(op0.extension).get_op(op0.op_name):
            f.append(Fail("resolve-op", "wrong-definition", f"node {i}"))
        got_sig = ttree(op1.outer_signature())
        want_sig = expect_tree(sig0, have_types)
        d = first_tree_diff(got_sig, want_sig)
        if d:
            f.append(Fail("resolve-types", f"signature:{_loc(d)}", f"node {i}: {d}"))
        got_args = [atree(a) for a in op1.args]
        want_args = [expect_tree(a, have_types) for a in args0]
        d = first_tree_diff(got_args, want_args)
        if d:
            f.append(Fail("resolve-types", f"type-args:{_loc(d)}", f"node {i}: {d}"))
        # signatures, port types and bounds are unchanged
        sigdoc1 = json.loads(op1.outer_signature()._to_serial_root().model_dump_json())
        if sigdoc1 != sigdoc0:
            from vlib.props.c05 import first_diff

            f.append(Fail("invisible", f"signature-encoding:{first_diff(sigdoc1, sigdoc0)}", f"node {i}"))
    # wire format: unchanged except descriptions
    try:
        doc1 = json.loads(h.to_json())
    except Exception as e:  # noqa: BLE001
        return f + [exc_fail("to_json-after-resolve", e)]
    for j, (a, b) in enumerate(zip(doc1["nodes"], doc0["nodes"])):
        if a != b:
            a2, b2 = dict(a), dict(b)
            da, db = a2.pop("description", None), b2.pop("description", None)
            if a2 != b2:
                from vlib.props.c05 import first_diff

                f.append(Fail("invisible", f"wire:{first_diff(a2, b2)}", f"node {j}"))
            else:
                op0 = before.get(j, (None,))[0]
                allowed = {db}
                if op0 is not None and (op0.extension, op0.op_name) in have_ops:
                    allowed.add(reg.get_extension(op0.extension).get_op(op0.op_name).description)
                if da not in allowed:
                    f.append(Fail("invisible", "wire:description", f"node {j}: {da!r} not in {sorted(map(repr, allowed))}"))
    if doc1["edges"] != doc0["edges"] or len(doc1["nodes"]) != len(doc0["nodes"]):
        f.append(Fail("invisible", "wire:edges-or-node-count", ""))
    try:
        model1 = repr(h.to_model())
        if model1 != model0:
            k = next((i for i, (x, y) in enumerate(zip(model1, model0)) if x != y), 0)
            f.append(Fail("invisible", "model-export", f"...{model0[max(0, k - 40):k + 60]!r} became ...{model1[max(0, k - 40):k + 60]!r}"))
    except Exception as e:  # noqa: BLE001
        f.append(exc_fail("to_model-after-resolve", e))
    # idempotence
    snap = {n.idx: h[n].op for n in h}
    h.resolve_extensions(reg)
    for n in h:
        a, b = h[n].op, snap[n.idx]
        if isinstance(b, ops.ExtOp):
            same = isinstance(a, ops.ExtOp) and a._op_def is b._op_def and ttree(a.outer_signature()) == ttree(b.outer_signature()) and [atree(x) for x in a.args] == [atree(x) for x in b.args]
        else:
            same = a is b or a == b
        if not same:
            f.append(Fail("idempotent", type(b).__name__, f"node {n.idx}"))
            break
    # resolution never un-resolves: a later registry that knows nothing leaves every operation as it is
    import hugr.ext as hext

    snap2 = {n.idx: (type(h[n].op).__name__, json.loads(h[n].op._to_serial(n).model_dump_json())) for n in h}
    try:
        h.resolve_extensions(hext.ExtensionRegistry())
        for n in h:
            now = (type(h[n].op).__name__, json.loads(h[n].op._to_serial(n).model_dump_json()))
            if now != snap2[n.idx]:
                f.append(Fail("resolve-op", "changed-by-a-later-empty-registry:" + snap2[n.idx][0] + "->" + now[0], f"node {n.idx}"))
                break
    except Exception as e:  # noqa: BLE001
        f.append(exc_fail("resolve-again-raises", e))
    # bare expressions
    for t in case["bare"]:
        x = mk_type(ref.opaquify(t))
        tr0 = ttree(x)
        try:
            y = x.resolve(reg)
            yy = y.resolve(reg)
        except Exception as e:  # noqa: BLE001
            f.append(exc_fail("Type.resolve-raises", e))
            continue
        d = first_tree_diff(ttree(y), expect_tree(tr0, have_types))
        if d:
            f.append(Fail("resolve-types", f"bare-type:{_loc(d)}", str(d)))
        # the expression that was resolved is itself unchanged (it may be shared with other ops), so
        # resolving it against a registry that knows nothing still finds nothing
        if ttree(x) != tr0:
            f.append(Fail("resolve-types", "bare-type:input-expression-modified", f"{tr0} -> {ttree(x)}"[:300]))
        else:
            import hugr.ext as hext

            z = x.resolve(hext.ExtensionRegistry())
            if ttree(z) != tr0:
                f.append(Fail("resolve-types", "bare-type:resolved-against-empty-registry", f"{tr0} -> {ttree(z)}"[:300]))
        if ttree(yy) != ttree(y):
            f.append(Fail("idempotent", "bare-type", ""))
        # resolution never un-resolves: what is definition-backed stays so under any later registry
        import hugr.ext as hext

        try:
            if ttree(y.resolve(hext.ExtensionRegistry())) != ttree(y):
                f.append(Fail("resolve-types", "bare-type:resolved-type-changed-by-a-later-empty-registry", ""))
        except Exception as e:  # noqa: BLE001
            f.append(exc_fail("Type.resolve-raises", e))
        if y.type_bound() != x.type_bound():
            f.append(Fail("invisible", "bare-type-bound", f"{x.type_bound()} -> {y.type_bound()}"))
        e0, e1 = json.loads(x._to_serial_root().model_dump_json()), json.loads(y._to_serial_root().model_dump_json())
        if e0 != e1:
            f.append(Fail("invisible", "bare-type-encoding", ""))
        try:
            if repr(x.to_model()) != repr(y.to_model()):
                f.append(Fail("invisible", "bare-type-model", f"{x.to_model()!r} vs {y.to_model()!r}"[:300]))
        except TypeError:
            pass
        a0 = tys.TypeTypeArg(x)
        a1 = a0.resolve(reg)
        if atree(a1) != ["T", expect_tree(tr0, have_types)]:
            f.append(Fail("resolve-types", "bare-type-arg", ""))
        s0 = tys.SequenceArg([tys.TypeTypeArg(x), tys.BoundedNatArg(3)])
        if atree(s0.resolve(reg)) != ["S", [["T", expect_tree(tr0, have_types)], ["leaf", repr(tys.BoundedNatArg(3))]]]:
            f.append(Fail("resolve-types", "bare-sequence-arg", ""))
    if case["std"]:
        # opaque spellings of the prelude's own types (what a loaded document holds) against a registry with the
        # prelude: definition-backed by the prelude's definition, and written exactly as they were read
        from hugr.std import PRELUDE

        for name, b in (("qubit", tys.TypeBound.Any), ("usize", tys.TypeBound.Copyable), ("string", tys.TypeBound.Copyable), ("error", tys.TypeBound.Copyable)):
            o = tys.Opaque(id=name, bound=b, args=[], extension="prelude")
            for what, x in (("bare", o), ("in-tuple", tys.Tuple(o, tys.Bool)), ("in-function-type", tys.FunctionType([o], [o])), ("in-opaque-args", tys.Opaque("foo", b, [tys.TypeTypeArg(o)], "unknown.ext"))):
                try:
                    y = x.resolve(reg)
                except Exception as e:  # noqa: BLE001
                    f.append(exc_fail("Type.resolve-raises", e))
                    continue
                if what == "bare" and not (isinstance(y, tys.ExtType) and y.type_def == PRELUDE.types[name]):
                    f.append(Fail("resolve-types", f"prelude-type:{name}:not-definition-backed", repr(y)[:200]))
                if json.loads(x._to_serial_root().model_dump_json()) != json.loads(y._to_serial_root().model_dump_json()):
                    f.append(Fail("invisible", f"prelude-type:{name}:{what}:encoding", f"{y._to_serial_root().model_dump_json()}"[:300]))
                if y.type_bound() != x.type_bound():
                    f.append(Fail("invisible", f"prelude-type:{name}:{what}:bound", ""))
    return f[:8]


def _loc(d):
    path, depth = d
    import re

    p = re.sub(r"\$(/[A-Za-z]+)*", lambda m: m.group(0), path)
    kinds = [x for x in re.split(r"[/:$]", p) if x]
    return ("inside-" + kinds[-2] if len(kinds) >= 2 else "top") + ":" + kinds[-1] if kinds else "top"


def stats(case):
    try:
        h, reg, have_ops, have_types = build(case)
    except Exception:  # noqa: BLE001
        return 0, 0, 0, 0, 0
    import hugr.ops as ops

    res = unres = maxd = 0
    rops = uops = 0
    for n in h:
        op = h[n].op
        if isinstance(op, ops.Custom):
            if (op.extension, op.op_name) in have_ops:
                rops += 1
                for tr in [ttree(op.signature)] + [atree(a) for a in op.args]:
                    a, b, c = count_opaques(tr, have_types)
                    res, unres, maxd = res + a, unres + b, max(maxd, c)
            else:
                uops += 1
    return res, unres, maxd, rops, uops


def nontrivial(case):
    res, unres, maxd, rops, uops = stats(case)
    return res >= 1 and unres >= 1 and maxd >= 1


def classes(case):
    res, unres, maxd, rops, uops = stats(case)
    out = []
    if rops:
        out.append("resolvable-op")
    if uops:
        out.append("unresolvable-op")
    if res:
        out.append("resolvable-type")
    if unres:
        out.append("unresolvable-type")
    out.append(f"nesting{min(maxd, 3)}")
    if case["std"]:
        out.append("std-in-registry")
    if any(r["drop_types"] or r["drop_ops"] for r in case["registry"]):
        out.append("extension-without-definition")
    return out


SUBS = [Sub("resolve", check, strategy=lambda tier: cases(tier), nontrivial=nontrivial, classes=classes, n_quick=400, n_thorough=2000, sample_ok=lambda c: len(json.dumps(c)) < 4000)]
