"""C03 Emitted documents conform to the published wire format."""

from __future__ import annotations

import json
import os
from collections import Counter

from hypothesis import strategies as st

from vlib import extgen, modgen, proggen, refval, store
from vlib.props import c02
from vlib.runner import REPO, Fail, Sub, exc_fail

PROPERTY_ID = "C03"
RULE = (
    "case = HUGR from a generated builder program or raw store history followed by a mutation history (deletions, "
    "index reuse, multi-links, order links on nodes with unconnected ports), packages of generated modules and "
    "generated extensions. Oracle: (a) jsonschema (Draft 2020-12) validation of every emitted HUGR / Package / "
    "Extension document against specification/schema/hugr_schema_strict_live.json; (b) index sanity on the raw JSON "
    "(node 0 own parent, every other parent a different earlier node, edge endpoints < len(nodes)); (c) the document's "
    "edge multiset equals the one recomputed from links() and the reference signature of each op: value port -> same "
    "offset, static port right after the value inputs, order link -> first port after those, under the "
    "order-preserving renumbering. Non-trivial = a deletion / index reuse occurred, or an order edge on a node with an "
    "unconnected port, or a static edge; distinct by canonical JSON."
)
ASSUMPTIONS = ["links only on ports their operations have", "jsonschema implementation and the published schema file are trusted"]

_schema = None
_validators: dict = {}


def validator(defname):
    global _schema
    import jsonschema

    if _schema is None:
        with open(os.path.join(REPO, "specification", "schema", "hugr_schema_strict_live.json")) as f:
            _schema = json.load(f)
    if defname not in _validators:
        sch = {"$ref": f"#/$defs/{defname}", "$defs": _schema["$defs"]}
        _validators[defname] = jsonschema.Draft202012Validator(sch)
    return _validators[defname]


def schema_fails(doc, defname) -> list[Fail]:
    v = validator(defname)
    errs = sorted(v.iter_errors(doc), key=lambda e: list(e.absolute_path))
    out = []
    for e in errs[:2]:
        best = e
        # descend to the most specific sub-error
        while best.context:
            best = sorted(best.context, key=lambda x: -len(list(x.absolute_path)))[0]
        path = "$" + "".join("[*]" if isinstance(p, int) else f".{p}" for p in best.absolute_path)
        out.append(Fail("schema", f"{defname}:{path}:{best.validator}", best.message[:200]))
    return out


def index_sanity(doc) -> list[Fail]:
    f = []
    nodes = doc["nodes"]
    n = len(nodes)
    if not nodes:
        return [Fail("index-sanity", "empty", "no nodes")]
    if nodes[0]["parent"] != 0:
        f.append(Fail("index-sanity", "root-not-own-parent", f"node 0 parent {nodes[0]['parent']}"))
    for i, nd in enumerate(nodes[1:], start=1):
        p = nd["parent"]
        if not (0 <= p < i):
            f.append(Fail("index-sanity", "parent-not-earlier", f"node {i} has parent {p}"))
            break
    for e in doc["edges"]:
        (s, _), (d, _) = e
        if not (0 <= s < n and 0 <= d < n):
            f.append(Fail("index-sanity", "edge-endpoint-missing", f"{e} with {n} nodes"))
            break
    return f


def expected_edges(h):
    """Edge multiset recomputed from links() with reference port addressing."""
    live = sorted(n.idx for n in h)
    mp = {old: new for new, old in enumerate(live)}
    sig = {n.idx: refval.jsig(store.enc_op_of(h, n)) for n in h}
    want = Counter()
    for s, d in h.links():
        so, do = s.offset, d.offset
        if so == -1:
            so = refval.port_count(sig[s.node.idx], "out") - 1
        if do == -1:
            do = refval.port_count(sig[d.node.idx], "in") - 1
        want[(mp[s.node.idx], so, mp[d.node.idx], do)] += 1
    return want


def check_dangling(case) -> list[Fail]:
    """A raw call refused with an error (a link to / a child of a node that is not in the HUGR) must not show in a
    document: serialization afterwards either refuses too or emits an index-sane, schema-valid document."""
    from hugr.hugr.node_port import InPort, Node, OutPort

    h, _ = c02.build({"root": case["root"], "mut": case["mut"]})
    live = [n for n in h]
    ghost = Node(len(h._nodes) + 5 + case["k"])
    try:
        if case["what"] == "link-from":
            h.add_link(OutPort(ghost, 0), InPort(live[case["k"] % len(live)], 0))
        elif case["what"] == "link-to":
            h.add_link(OutPort(live[case["k"] % len(live)], 0), InPort(ghost, 0))
        else:
            h.add_node(store.mk_pool_op("noop"), ghost)
        return []  # accepted: not this check's business
    except Exception:  # noqa: BLE001 - refused
        pass
    try:
        doc = json.loads(h.to_json())
    except Exception:  # noqa: BLE001 - no document
        return []
    return [Fail(f.clause, "after-a-refused-call:" + f.locus, f.msg) for f in schema_fails(doc, "SerialHugr") + index_sanity(doc)]


def partial_call(case):
    """A module in which a function is called (and loaded) with only the first `given` of its arguments
    wired: the static edge still ends right after all the value inputs of the call."""
    import hugr.tys as tys
    from hugr.build.function import Module

    from vlib.interp import mk_row

    ins = mk_row(case["ins"])
    outs = mk_row(case["outs"])
    m = Module()
    f = m.declare_function("callee", tys.PolyFuncType([], tys.FunctionType(ins, outs)))
    main = m.define_function("main", ins, [])
    given = list(main.inputs())[: case["given"] % (len(ins) + 1)]
    c = main.call(f, *given)
    main.load_function(f)
    if case.get("order"):
        main.add_state_order(main.input_node, c)
    main.set_outputs()
    return m.hugr


def check_hugr(case) -> list[Fail]:
    if "op" in case:
        from vlib.props import c05

        h = c05.order_probe(case["op"], case.get("extra", 0))  # one node of a generated operation between two order edges
    elif "given" in case:
        h = partial_call(case)
    else:
        h, flags = c02.build(case)
    try:
        doc = json.loads(h.to_json())
    except Exception as e:  # noqa: BLE001
        return [exc_fail("to_json", e)]
    f = schema_fails(doc, "SerialHugr") + index_sanity(doc)
    # order links only where both ends have an order port (else there is no port to address)
    ok_order = all((s.offset != -1 or store.has_order_port(h, s.node, "out")) and (d.offset != -1 or store.has_order_port(h, d.node, "in")) for s, d in h.links())
    if ok_order:
        got = Counter((e[0][0], e[0][1], e[1][0], e[1][1]) for e in doc["edges"])
        want = expected_edges(h)
        if got != want:
            ga, wa = sorted(got.elements(), key=str), sorted(want.elements(), key=str)
            only = [x for x in ga if x not in wa][:3]
            f.append(Fail("edge-addressing", "edges-differ", f"document-only={only} expected-only={[x for x in wa if x not in ga][:3]}"))
    # (d) static edges built by the builders end at the static port: right after the value inputs
    if ("prog" in case and not case.get("mut")) or "given" in case:
        sigs = [refval.jsig(n) for n in doc["nodes"]]
        for (s_, so), (d_, do) in doc["edges"]:
            if doc["nodes"][s_]["op"] in ("FuncDefn", "FuncDecl", "Const") and so == 0:
                ts = sigs[d_]
                if ts["static_in"] is None or do != len(ts["ins"]):
                    f.append(Fail("edge-addressing", "static-port:" + doc["nodes"][d_]["op"], f"static edge ({s_},{so})->({d_},{do}); value inputs {len(ts['ins'])}"))
                    break
    return f


def check_package(case) -> list[Fail]:
    from hugr.package import Package

    mods = [modgen.mk_module(m) for m in case["modules"]]
    exts = [extgen.mk_extension(e) for e in case["exts"]]
    p = Package(mods, exts)
    doc = json.loads(p.to_bytes()[10:])
    f = schema_fails(doc, "Package")
    for m in doc["modules"]:
        f += index_sanity(m)
    for e in exts:
        f += schema_fails(json.loads(e.to_json()), "Extension")
    return f


def facts(case):
    fl, _ = c02.facts(case)
    try:
        h, _ = c02.build(case)
    except Exception:  # noqa: BLE001
        return fl
    import hugr.ops as ops

    try:
        for s, d in h.links():
            if isinstance(h[s.node].op, ops.Const | ops.FuncDefn | ops.FuncDecl):
                fl.add("static-edge")
            if s.offset == -1:
                nin, nout = store.value_ports(h, s.node)
                used = {p.offset for p, qs in h.outgoing_links(s.node) if qs}
                if len(used) < nout:
                    fl.add("order-edge-with-unconnected-port")
    except KeyError:  # a store whose links name dead nodes: classified by what was seen; the check reports it
        pass
    return fl


def nontrivial(case) -> bool:
    return bool(facts(case) & {"delete-node", "static-edge", "order-edge-with-unconnected-port"})


def pkg_strategy(tier):
    @st.composite
    def s(draw):
        names = draw(st.lists(extgen.EXTN, max_size=2, unique=True))
        return {"modules": draw(st.lists(modgen.modules(1), max_size=2)), "exts": [draw(extgen.extensions(name=n, max_defs=3)) for n in names]}

    return s()


SUBS = [
    Sub("programs", check_hugr, strategy=c02.prog_strategy, nontrivial=nontrivial, classes=lambda c: sorted(facts(c) & {"delete-node", "static-edge", "order-edge-with-unconnected-port", "multi-link", "order-link"}),
        n_quick=150, n_thorough=1200, sample_ok=lambda c: len(json.dumps(c)) < 3000),
    Sub("call-programs", check_hugr, strategy=lambda tier: st.fixed_dictionaries({"prog": proggen.programs(size=14, max_depth=1, roots=("module",), detached=False, call_bias=True), "mut": st.just([])}),
        nontrivial=nontrivial, classes=lambda c: sorted(set(c["prog"].get("classes", [])) & {"call", "polymorphic-call", "arity-changing-instantiation", "load-function", "function-called-twice"}), n_quick=80, n_thorough=600,
        sample_ok=lambda c: len(json.dumps(c)) < 3000),
    Sub("raw", check_hugr, strategy=c02.raw_strategy, nontrivial=nontrivial, classes=lambda c: sorted(facts(c) & {"delete-node", "static-edge", "order-edge-with-unconnected-port", "multi-link", "order-link"}), n_quick=200, n_thorough=1500),
    Sub("refused-calls", check_dangling, strategy=lambda tier: st.fixed_dictionaries({"root": st.sampled_from(["dfg", "module"]), "mut": store.valid_mutations(6), "what": st.sampled_from(["link-from", "link-to", "child-of"]), "k": st.integers(0, 6)}),
        nontrivial=lambda c: True, classes=lambda c: [c["what"]], n_quick=100, n_thorough=600),
    Sub("partial-calls", check_hugr, strategy=lambda tier: st.fixed_dictionaries({"ins": st.lists(__import__("vlib.asts", fromlist=["x"]).types(1, copy_only=True), min_size=1, max_size=4), "outs": st.lists(__import__("vlib.asts", fromlist=["x"]).types(1, copy_only=True), max_size=2), "given": st.integers(0, 4), "order": st.booleans()}),
        nontrivial=lambda c: c["given"] % (len(c["ins"]) + 1) < len(c["ins"]), classes=lambda c: ["all-arguments-wired" if c["given"] % (len(c["ins"]) + 1) == len(c["ins"]) else "some-arguments-unwired"], n_quick=100, n_thorough=800),
    Sub("order-ports-by-kind", check_hugr, strategy=lambda tier: __import__("vlib.props.c05", fromlist=["x"]).order_ports_strategy(tier), nontrivial=lambda c: c["op"]["k"] in ("Call", "LoadFunc", "LoadConst", "CallIndirect"),
        classes=lambda c: [c["op"]["k"]], n_quick=150, n_thorough=1500),
    Sub("order-ports", check_hugr, strategy=c02.order_strategy, nontrivial=nontrivial, classes=lambda c: sorted(facts(c) & {"delete-node", "order-link", "order-edge-with-unconnected-port"}), n_quick=150, n_thorough=1000),
    Sub("index-reuse", check_hugr, strategy=c02.reuse_strategy, nontrivial=nontrivial, classes=lambda c: sorted(facts(c) & {"delete-node", "order-link"}), n_quick=250, n_thorough=1500),
    Sub("packages", check_package, strategy=pkg_strategy, nontrivial=lambda c: bool(c["exts"]) or any(modgen.n_nodes(m) >= 4 for m in c["modules"]), n_quick=80, n_thorough=600),
]
