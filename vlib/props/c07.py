"""C07 A type is reported copyable only if all of its constituents are."""

from __future__ import annotations

import itertools
import json

from hypothesis import strategies as st

from vlib import asts, ref
from vlib.asts import depth_of
from vlib.interp import mk_type
from vlib.runner import Fail, Sub

PROPERTY_ID = "C07"
RULE = (
    "types sub-check: type ASTs to depth 4 (quick) / 6 (thorough) incl. generated extension type definitions with "
    "explicit or from-params bounds (indices naming TypeTypeParams) and std Array/List/StaticArray; oracle = reference "
    "bound function over the AST; the bound in the serialized (opaque) form must equal it and survive decoding. "
    "static-array sub-check: StaticArray(T) raises ValueError iff ref_bound(T) is linear. join sub-check: exhaustive "
    "over all bound sequences of length <= 6. Non-trivial = type with a linear leaf or an extension type with a "
    "from-params bound; distinct by canonical JSON."
)
ASSUMPTIONS = ["a from-params index naming an argument that is not a type contributes nothing to the join (hugr-py's reading of 'the type arguments its definition names'; the reference implementation rejects such definitions)"]


def dump(m):
    return json.loads(m.model_dump_json())


def has_linear_or_fp(t) -> bool:
    s = json.dumps(t)
    return '"qubit"' in s or '"b": "A"' in s or '"b": "F"' in s


def flip_leaf_bounds(t):
    """The same type with the declared bound of every variable, alias and opaque leaf flipped:
    it prints the same and is a different type."""
    if isinstance(t, list):
        return [flip_leaf_bounds(x) for x in t]
    if not isinstance(t, dict):
        return t
    r = {k: flip_leaf_bounds(v) for k, v in t.items()}
    if t.get("k") in ("var", "rowvar", "alias", "opaque") and t.get("b") in ("A", "C"):
        r["b"] = "C" if t["b"] == "A" else "A"
    return r


def check_twin(t) -> list[Fail]:
    """Bounds are a function of the type alone: asking about a look-alike type in between must not
    change the answer (no state shared between queries)."""
    twin = flip_leaf_bounds(t)
    if twin == t:
        return []
    try:
        x2 = mk_type(twin)
        want2 = ref.ref_bound(twin)
    except Exception:  # noqa: BLE001 - the twin need not be constructible (copyable-only positions)
        return []
    fails = []
    got2 = x2.type_bound().value
    if got2 != want2:
        fails.append(Fail("type_bound", "look-alike:" + t["k"], f"got={got2} want={want2} type={json.dumps(twin)[:200]}"))
    got = mk_type(t).type_bound().value
    if got != ref.ref_bound(t):
        fails.append(Fail("type_bound", "after-look-alike:" + t["k"], f"got={got} want={ref.ref_bound(t)} type={json.dumps(t)[:200]}"))
    return fails


def check_type(case) -> list[Fail]:
    import hugr._serialization.tys as stys

    t = case["t"]
    x = mk_type(t)
    want = ref.ref_bound(t)
    got = x.type_bound().value
    fails = []
    if got != want:
        fails.append(Fail("type_bound", t["k"], f"got={got} want={want} type={json.dumps(t)[:200]}"))
    e = dump(x._to_serial_root())
    if e.get("t") == "Opaque" and e["bound"] != want:
        fails.append(Fail("serialized-bound", t["k"], f"{e['bound']} != {want}"))
    # every opaque constituent carries its own computed bound
    if e != ref.enc_type(t):
        fails.append(Fail("serialized-form", t["k"], "encoding differs from reference (nested bound?)"))
    y = stys.Type.model_validate(e).deserialize()
    if y.type_bound().value != want:
        fails.append(Fail("decoded-bound", t["k"], f"{y.type_bound().value} != {want}"))
    fails += check_twin(t)
    # the same type after a resolution that can find nothing (empty registry) has the same bound
    try:
        import hugr.ext as hext

        z = x.resolve(hext.ExtensionRegistry())
        if z.type_bound().value != want:
            fails.append(Fail("type_bound", "after-resolve-against-empty-registry:" + t["k"], f"got={z.type_bound().value} want={want} type={json.dumps(t)[:200]}"))
    except Exception as e:  # noqa: BLE001
        from vlib.runner import exc_fail

        fails.append(exc_fail("resolve", e))
    return fails


# element types whose bound is only declared: variables, aliases, opaque types (both bounds)
LEAF_ELEMS = st.one_of(
    st.tuples(st.integers(0, 3), st.sampled_from(["A", "C"])).map(lambda t: {"k": "var", "i": t[0], "b": t[1]}),
    st.tuples(asts.NAMES, st.sampled_from(["A", "C"])).map(lambda t: {"k": "alias", "name": t[0], "b": t[1]}),
    st.tuples(asts.EXT_NAMES, asts.NAMES, st.sampled_from(["A", "C"])).map(lambda t: {"k": "opaque", "ext": t[0], "id": t[1], "args": [], "b": t[2]}),
    st.just({"k": "qubit"}),
)


def check_sarray(case) -> list[Fail]:
    from hugr.std.collections.static_array import StaticArray

    t = case["elem"]
    elem = mk_type(t)
    linear = ref.ref_bound(t) == "A"
    try:
        sa = StaticArray(elem)
        raised = False
    except ValueError:
        raised = True
    if raised != linear:
        return [Fail("static-array", "rejects-iff-linear", f"elem bound={ref.ref_bound(t)} raised={raised}")]
    if not raised and sa.type_bound().value != "C":
        return [Fail("static-array", "bound", "copyable static array not copyable")]
    return []


def check_join(case) -> list[Fail]:
    from hugr.tys import TypeBound

    bs = [TypeBound.Copyable if b == "C" else TypeBound.Any for b in case["bs"]]
    got = TypeBound.join(*bs).value
    want = ref.join(case["bs"])
    return [] if got == want else [Fail("join", "lub", f"{case['bs']} -> {got}")]


def enum_join(tier):
    for n in range(0, 7):
        for bs in itertools.product("CA", repeat=n):
            yield {"bs": list(bs)}


def cls(case):
    t = case["t"]
    s = json.dumps(t)
    out = [t["k"], "linear" if ref.ref_bound(t) == "A" else "copyable"]
    if '"b": "F"' in s:
        out.append("from-params")
    if '"k": "ext"' in s:
        out.append("has-ext-type")
    return out


def _with_variable_args(tm):
    """An extension type where some arguments for *copyable* type parameters are bare variable arguments
    (`VariableArg` whose parameter is a copyable type parameter): such an argument stands for a copyable type,
    so it contributes Copyable to a from-params bound, like every non-linear constituent."""
    t, mask = tm
    t = json.loads(json.dumps(t))
    n = 0
    for i, p in enumerate(t["def"]["params"]):
        if p["k"] == "type" and p["b"] == "C":
            if (mask >> (n % 8)) & 1:
                t["args"][i] = {"k": "var", "i": n, "p": {"k": "type", "b": "C"}}
            n += 1
    return t


def has_variable_arg(t):
    return any(a["k"] == "var" for a in t.get("args", []))


SUBS = [
    # bare variable arguments for copyable type parameters, before / after linear type arguments
    Sub("variable-args", check_type, strategy=lambda tier: st.tuples(asts.ext_types(3, 1), st.integers(1, 255)).map(_with_variable_args).map(lambda t: {"t": t}),
        nontrivial=lambda c: has_variable_arg(c["t"]) and c["t"]["def"]["bound"]["b"] == "F", classes=lambda c: cls(c) + (["variable-arg"] if has_variable_arg(c["t"]) else []) + (["variable-arg-after-linear-arg"] if has_variable_arg(c["t"]) and ref.ref_bound(c["t"]) == "A" else []), n_quick=1500, n_thorough=8000),
    Sub("types", check_type, fuzz_runs=3000, strategy=lambda tier: st.one_of(asts.types(4 if tier == "quick" else 6), asts.types_x(3 if tier == "quick" else 4, 1)).map(lambda t: {"t": t}),
        nontrivial=lambda c: has_linear_or_fp(c["t"]), classes=cls, n_quick=3000, n_thorough=20000),
    Sub("static-array", check_sarray, strategy=lambda tier: st.one_of(asts.types_x(3, 1), asts.types_x(3, 1), LEAF_ELEMS).map(lambda t: {"elem": t}),
        nontrivial=lambda c: has_linear_or_fp(c["elem"]), classes=lambda c: ["linear-elem" if ref.ref_bound(c["elem"]) == "A" else "copyable-elem"], n_quick=800, n_thorough=4000),
    Sub("join", check_join, enumerate=enum_join, nontrivial=lambda c: len(c["bs"]) >= 2, exhaustive=True),
]
