"""C19 Shot results convert to register bitstrings by the documented convention."""

from __future__ import annotations

import re
from collections import Counter

from hypothesis import strategies as st

from vlib.runner import Fail, InvalidCase, Sub

PROPERTY_ID = "C19"
RULE = (
    "case = multi-shot result: 0..5 shots of 0..8 (tag, value) entries; tags from a pool of register names with "
    "optional [n] (n<=12) and non-index look-alikes; values 0/1/True/False, lists of bits, nested lists, and "
    "non-bits (2,-1,1.5,'1',None,[0,2]); both strict flags. Oracle = in-order replay model of the module "
    "docstring (indexed write grows with zeros, whole-register write overwrites, later writes win, ValueError for "
    "a non-bit), per-register lists/counts in shot order, strict_names iff two shots differ in register set, "
    "strict_lengths iff a register has two lengths, collated counts per tag in entry order. Non-trivial = a shot "
    "that interleaves whole-register and indexed writes to one register, or uses a bool, or a result whose shots "
    "differ in register sets or lengths; distinct by canonical JSON."
)
ASSUMPTIONS = [
    "tags are ASCII without trailing newline (the statement only speaks of name[n])",
]

IDX = re.compile(r"[a-z][A-Za-z0-9_]*\[([0-9]+)\]")


class NotBit(Exception):
    pass


def cast(v):
    if isinstance(v, bool):
        return "1" if v else "0"
    if isinstance(v, int) and v in (0, 1):
        return str(v)
    raise NotBit


def ref_bits(entries):
    regs: dict[str, list[str]] = {}
    for tag, data in entries:
        m = IDX.fullmatch(tag)
        if m:
            name = tag[: tag.index("[")]
            i = int(m.group(1))
            if isinstance(data, list):
                raise NotBit
            b = cast(data)
            cur = regs.setdefault(name, [])
            if len(cur) <= i:
                cur += ["0"] * (i + 1 - len(cur))
            cur[i] = b
        elif isinstance(data, list):
            regs[tag] = [cast(x) for x in data]
        else:
            regs[tag] = [cast(data)]
    return {k: "".join(v) for k, v in regs.items()}


def flat(x):
    for i in x:
        if isinstance(i, list):
            yield from flat(i)
        else:
            yield i


def check(case) -> list[Fail]:
    from hugr.qsystem.result import QsysResult, QsysShot

    shots = case["shots"]
    fails: list[Fail] = []
    try:
        ent = [[(t, v) for t, v in s] for s in shots]
    except (TypeError, ValueError) as e:
        raise InvalidCase from e
    # ---- per shot
    per_shot = []
    for es in ent:
        try:
            want = ref_bits(es)
        except NotBit:
            want = ValueError
        try:
            got = QsysShot(list(es)).to_register_bits()
        except ValueError:
            got = ValueError
        # the same shot built incrementally, converted once on the way: conversion reflects the entries
        # the shot has when it is asked
        if len(es) >= 2:
            cut = 1 + (len(es) * 7 + len(es[0][0])) % (len(es) - 1)
            sh_inc = QsysShot(list(es[:cut]))
            try:
                sh_inc.to_register_bits()
            except ValueError:
                pass
            for t_, v_ in es[cut:]:
                sh_inc.append(t_, v_)
            try:
                got_inc = sh_inc.to_register_bits()
            except ValueError:
                got_inc = ValueError
            if got_inc != got and not (got is ValueError or got_inc is ValueError) or (got is ValueError) != (got_inc is ValueError):
                fails.append(Fail("to_register_bits", "conversion-depends-on-earlier-conversion", f"entries={es!r} converted after {cut} entries and again at the end: {got_inc!r} vs {got!r}"))
        if want is ValueError:
            if got is not ValueError:
                fails.append(Fail("to_register_bits", "non-bit-accepted", f"entries={es!r} got={got!r}"))
        elif got is ValueError:
            fails.append(Fail("to_register_bits", "valid-rejected", f"entries={es!r}"))
        else:
            if any(ch not in "01" for s in got.values() for ch in s):
                fails.append(Fail("to_register_bits", "non-binary-char", f"entries={es!r} got={got!r}"))
            elif got != want:
                inter = _interleaved(es)
                fails.append(Fail("to_register_bits", "replay-mismatch" + ("-interleaved" if inter else ""), f"entries={es!r} got={got!r} want={want!r}"))
        per_shot.append(want)
        # as_dict / collate_tags
        sh = QsysShot(list(es))
        d = {}
        for t, v in es:
            d[t] = v
        if sh.as_dict() != d:
            fails.append(Fail("as_dict", "last-wins", f"{es!r}"))
        col = {}
        for t, v in es:
            col.setdefault(t, []).append(v)
        if sh.collate_tags() != col or list(sh.collate_tags()) != list(col):
            fails.append(Fail("collate_tags", "mismatch", f"{es!r}"))
    # ---- multi shot
    res = QsysResult([QsysShot(list(es)) if i % 2 else list(es) for i, es in enumerate(ent)])
    sn, sl = case.get("strict_names", False), case.get("strict_lengths", False)
    if any(w is ValueError for w in per_shot):
        want = ValueError
    else:
        want = {}
        for w in per_shot:
            for r, s in w.items():
                want.setdefault(r, []).append(s)
        names_differ = len({frozenset(w) for w in per_shot}) > 1
        lens_differ = any(len({len(s) for s in v}) > 1 for v in want.values())
        if (sn and names_differ) or (sl and lens_differ):
            want = ValueError
    for meth in ("register_bitstrings", "register_counts"):
        try:
            got = getattr(res, meth)(strict_names=sn, strict_lengths=sl)
        except ValueError:
            got = ValueError
        w = want
        if meth == "register_counts" and want is not ValueError:
            w = {r: Counter(v) for r, v in want.items()}
        if w is ValueError and got is not ValueError:
            why = "non-bit" if any(x is ValueError for x in per_shot) else ("strict_names" if sn and names_differ else "strict_lengths")
            fails.append(Fail(meth, f"accepted-{why}", f"shots={ent!r} flags={sn},{sl} got={got!r}"))
        elif w is not ValueError and got is ValueError:
            fails.append(Fail(meth, "valid-rejected", f"shots={ent!r} flags={sn},{sl}"))
        elif w is not ValueError and got != w:
            fails.append(Fail(meth, "mismatch", f"shots={ent!r} got={got!r} want={w!r}"))
    # ---- collated counts
    try:
        keys = []
        for es in ent:
            col = {}
            for t, v in es:
                col.setdefault(t, []).append(v)
            keys.append(tuple((t, "".join(cast(x) for x in flat(vs))) for t, vs in col.items()))
        wantc = Counter(keys)
    except NotBit:
        wantc = ValueError
    try:
        gotc = res.collated_counts()
    except ValueError:
        gotc = ValueError
    if wantc is ValueError and gotc is not ValueError:
        fails.append(Fail("collated_counts", "non-bit-accepted", f"shots={ent!r} got={gotc!r}"))
    elif wantc is not ValueError and gotc is ValueError:
        fails.append(Fail("collated_counts", "valid-rejected", f"shots={ent!r}"))
    elif wantc is not ValueError and gotc != wantc:
        fails.append(Fail("collated_counts", "mismatch", f"shots={ent!r} got={gotc!r} want={wantc!r}"))
    return fails


def _regname(tag):
    m = IDX.fullmatch(tag)
    return (tag[: tag.index("[")], True) if m else (tag, False)


def _interleaved(es) -> bool:
    kinds: dict[str, set] = {}
    for t, _ in es:
        n, idx = _regname(t)
        kinds.setdefault(n, set()).add(idx)
    return any(len(k) == 2 for k in kinds.values())


def _has_bool(es) -> bool:
    return any(isinstance(x, bool) for _, v in es for x in (flat(v) if isinstance(v, list) else [v]))


def nontrivial(case) -> bool:
    shots = case["shots"]
    if any(_interleaved(s) or _has_bool(s) for s in shots):
        return True
    try:
        ps = [ref_bits([(t, v) for t, v in s]) for s in shots]
    except NotBit:
        return False
    if len({frozenset(p) for p in ps}) > 1:
        return True
    lens: dict[str, set] = {}
    for p in ps:
        for r, s in p.items():
            lens.setdefault(r, set()).add(len(s))
    return any(len(v) > 1 for v in lens.values())


def classes(case):
    out = set()
    shots = case["shots"]
    if any(_interleaved(s) for s in shots):
        out.add("interleaved")
    if any(_has_bool(s) for s in shots):
        out.add("bool")
    try:
        ps = [ref_bits([(t, v) for t, v in s]) for s in shots]
        out.add("all-valid")
        if len({frozenset(p) for p in ps}) > 1:
            out.add("register-sets-differ")
    except NotBit:
        out.add("has-non-bit")
    if len(shots) >= 2:
        out.add("multi-shot")
    if case.get("strict_names"):
        out.add("strict_names")
    if case.get("strict_lengths"):
        out.add("strict_lengths")
    return out


NAMES = ["a", "b", "c0", "reg_x"]
tag = st.one_of(
    st.sampled_from(NAMES),
    st.tuples(st.sampled_from(NAMES), st.integers(0, 12)).map(lambda t: f"{t[0]}[{t[1]}]"),
    st.tuples(st.sampled_from(NAMES), st.integers(0, 3)).map(lambda t: f"{t[0]}[{t[1]}]"),
    st.sampled_from(["A[1]", "a[1]x", "a[-1]", "a[]", "a[01]", "_a[0]", "a b[0]"]),
)
bit = st.sampled_from([0, 1, 0, 1, True, False])
nonbit = st.sampled_from([2, -1, 1.5, "1", None, 1.0])
value = st.one_of(
    bit,
    bit,
    st.lists(bit, max_size=5),
    st.lists(bit, max_size=5),
    st.lists(st.one_of(bit, st.lists(bit, max_size=3)), max_size=4),
    nonbit,
    st.lists(st.one_of(bit, nonbit), min_size=1, max_size=3),
)
good_value = st.one_of(bit, st.lists(bit, max_size=5))


def strategy(tier):
    def shot(vals):
        return st.lists(st.tuples(tag, vals).map(list), max_size=8)

    shots = st.one_of(st.lists(shot(good_value), max_size=5), st.lists(shot(good_value), max_size=5), st.lists(shot(value), max_size=4))
    return st.fixed_dictionaries({"shots": shots, "strict_names": st.booleans(), "strict_lengths": st.booleans()})


def sparse_strategy(tier):
    """Many short shots over two registers: registers missing from the first shot, appearing later, with
    other lengths, in any combination of the strict flags."""
    sparse = st.lists(st.lists(st.tuples(st.sampled_from(["a", "b", "a[2]", "b[0]", "a[0]"]), good_value).map(list), max_size=3), min_size=3, max_size=6)
    # the same registers written in another order by every shot (same register set, same lengths)
    one = st.lists(st.tuples(st.sampled_from(["a", "b", "c0", "a[1]", "b[0]"]), good_value).map(list), min_size=2, max_size=4)
    permuted = one.flatmap(lambda es: st.lists(st.permutations(es), min_size=2, max_size=4).map(lambda ps: [list(p) for p in ps]))
    return st.fixed_dictionaries({"shots": st.one_of(sparse, sparse, permuted), "strict_names": st.booleans(), "strict_lengths": st.booleans()})


SUBS = [Sub("sparse-shots", check, strategy=sparse_strategy, nontrivial=nontrivial, classes=classes, n_quick=1200, n_thorough=10000), Sub("shots", check, fuzz_runs=10000, strategy=strategy, nontrivial=nontrivial, classes=classes, n_quick=2500, n_thorough=25000)]
