"""C13 Builders refuse inconsistent constructions instead of recording them."""

from __future__ import annotations

import copy
import json

from hypothesis import strategies as st

from vlib import proggen, progrun, ref, store
from vlib.props.c01 import run_program
from vlib.runner import Fail, InvalidCase, Sub, exc_locus

PROPERTY_ID = "C13"
RULE = (
    "case = generated well-formed builder program plus exactly one injected inconsistency from the statement's "
    "catalogue (wire without ancestor-sibling relation; wire from outside the enclosing CFG; case outputs disagree; "
    "case index out of range; case built twice; conditional context exited with unbuilt cases; exit branch with a "
    "different row; function outputs differ from declared; polymorphic call / load without instantiation or with a "
    "wrong number of type arguments; non-function node used as function; non-dataflow port used as wire; integer wire "
    "in a plain Dfg.add; untracked index in a TrackedDfg; serializing with an incomplete op; the HUGR's root node used "
    "as a wire; a constant of one basic block used as a value in another block) at a generated position "
    "and depth. Oracle: execution must raise at or after the injected step and before to_json returns, with the "
    "documented class where one is documented, and must not be suppressed by leaving the `with` block of any enclosing "
    "builder (every builder is a context manager); the un-injected twin must build and serialize. Non-trivial = injection "
    "at nesting depth >= 1 or after >= 3 events; distinct by canonical JSON."
)
ASSUMPTIONS = ["negative case / tracked indices follow Python indexing and are not generated"]

KINDS = [
    "unrelated-wire", "outside-cfg-wire", "case-outputs-disagree", "case-index-out-of-range", "case-built-twice", "cond-exit-unbuilt",
    "exit-row-mismatch", "function-outputs-differ", "poly-call-no-instantiation", "poly-call-wrong-arg-count", "poly-call-no-type-args", "non-function-called",
    "non-dataflow-wire", "int-wire-in-dfg", "untracked-index", "incomplete-op", "root-as-wire", "non-dataflow-wire-across-blocks", "order-port-as-wire",
]


def expected(kind):
    from hugr.build.cond_loop import ConditionalError
    from hugr.exceptions import MismatchedExit, NoSiblingAncestor, NotInSameCfg
    from hugr.ops import IncompleteOp, NoConcreteFunc

    return {
        "unrelated-wire": (NoSiblingAncestor,),
        "outside-cfg-wire": (NotInSameCfg,),
        "case-outputs-disagree": (ConditionalError,),
        "case-index-out-of-range": (ConditionalError,),
        "case-built-twice": (ConditionalError,),
        "cond-exit-unbuilt": (ConditionalError,),
        "exit-row-mismatch": (MismatchedExit,),
        "function-outputs-differ": (ValueError,),
        "poly-call-no-instantiation": (NoConcreteFunc,),
        "poly-call-wrong-arg-count": (NoConcreteFunc,),
        "poly-call-no-type-args": (NoConcreteFunc,),
        "non-function-called": (ValueError,),
        "non-dataflow-wire": (ValueError,),
        "int-wire-in-dfg": (ValueError,),
        "untracked-index": (IndexError,),
        "incomplete-op": (IncompleteOp,),
        "root-as-wire": (NoSiblingAncestor, NotInSameCfg),
        "non-dataflow-wire-across-blocks": (ValueError,),
        "order-port-as-wire": (ValueError,),
    }[kind]


# ------------------------------------------------------------------ program structure from the event list


def structure(prog):
    """regions: id -> dict(parent, kind, open_ev, func, tree); ev_region: event -> region it acts in."""
    R = {-1: {"parent": None, "kind": prog["root"]["kind"], "open": -1, "tree": "root"}}
    root_kind = prog["root"]["kind"]
    R[-1]["sub"] = {"module": "module", "cfg": "cfg", "cond": "cond"}.get(root_kind, "D")
    evr = {}
    for i, ev in enumerate(prog["events"]):
        e = ev["e"]
        if e in ("nested", "loop"):
            R[i] = {"parent": ev["r"], "sub": "D", "kind": e, "open": i}
        elif e in ("cond", "if"):
            R[i] = {"parent": ev["r"], "sub": "cond", "kind": e, "open": i}
            if e == "if":
                R[f"{i}i"] = {"parent": i, "sub": "D", "kind": "case", "open": i}
        elif e == "case":
            R[i] = {"parent": ev["c"], "sub": "D", "kind": "case", "open": i}
        elif e == "else":
            R[i] = {"parent": ev["if"], "sub": "D", "kind": "case", "open": i}
        elif e == "cfg":
            R[i] = {"parent": ev["r"], "sub": "cfg", "kind": "cfg", "open": i}
        elif e in ("entry", "block", "successor"):
            R[i] = {"parent": ev["c"], "sub": "D", "kind": "block", "open": i}
        elif e == "func":
            R[i] = {"parent": ev["m"], "sub": "D", "kind": "func", "open": i}
        elif e == "detached":
            k = ev["kind"]
            R[i] = {"parent": None, "sub": {"dfg": "D", "loop": "D", "cond": "cond", "cfg": "cfg"}[k], "kind": "detached-" + k, "open": i}
        if "r" in ev:
            evr[i] = ev["r"]
    for rid, r in R.items():
        t = rid
        while R[t]["parent"] is not None:
            t = R[t]["parent"]
        r["tree"] = t
    return R, evr


def ancestors(R, r):
    out = []
    while r is not None:
        out.append(r)
        r = R[r]["parent"]
    return out


def depth(R, r):
    return len(ancestors(R, r)) - 1


def close_index(prog, r):
    for i, ev in enumerate(prog["events"]):
        if ev["e"] == "close" and ev["r"] == r:
            return i
    return None


def wire_region(prog, evr, w):
    return w["in"] if "in" in w else evr.get(w["n"])


def local_wires(prog, R, evr):
    """region -> wires (refs) that are defined in that region, harvested from uses."""
    out = {}
    for ev in prog["events"]:
        ws = list(ev.get("args") or []) + (list(ev.get("outs") or []) if ev["e"] == "close" else []) + (list(ev.get("just") or []) + list(ev.get("rest") or []) if ev["e"] in ("loop", "insert") else [])
        for k in ("sum", "cond"):
            if isinstance(ev.get(k), dict):
                ws.append(ev[k])
        for w in ws:
            if isinstance(w, dict) and ("n" in w or "in" in w):
                r = wire_region(prog, evr, w)
                if r is not None and r in R and R[r]["sub"] == "D":
                    out.setdefault(r, [])
                    if w not in out[r]:
                        out[r].append(w)
    return out


NOOP = {"k": "Noop", "t": {"k": "bool"}}


def inject(prog, kind, sel):
    """-> (program', index of the injected event) or None when not applicable."""
    p = json.loads(json.dumps(prog))  # plain tree: no shared sub-objects
    evs = p["events"]
    R, evr = structure(p)
    lw = local_wires(p, R, evr)
    d_regions = [r for r, v in R.items() if v["sub"] == "D" and close_index(p, r) is not None]

    def pick(xs):
        return xs[sel % len(xs)] if xs else None

    if kind in ("unrelated-wire", "outside-cfg-wire"):
        cands = []
        for r in d_regions:
            anc = set(ancestors(R, r))
            is_block = R[r]["kind"] == "block"
            for r2, ws in lw.items():
                if r2 in anc or R[r2]["tree"] != R[r]["tree"]:
                    continue
                chain2 = ancestors(R, r2)
                if is_block:
                    cfg = R[r]["parent"]
                    inside_cfg = cfg in chain2
                    if kind == "outside-cfg-wire" and not inside_cfg:
                        cands.append((r, ws[0]))
                    # a source inside the same CFG is accepted as a dominator edge: not an injection
                elif kind == "unrelated-wire":
                    cands.append((r, ws[0]))
        c = pick(cands)
        if c is None:
            return None
        r, w = c
        ci = close_index(p, r)
        # the source must already exist when the injected op is added
        src_ev = w.get("n", R[w["in"]]["open"] if "in" in w else -1)
        if isinstance(src_ev, int) and src_ev >= ci:
            return None
        evs.insert(ci, {"e": "op", "r": r, "op": NOOP, "args": [w], "mode": "add_op", "partial": True, "meta": None})
        return _renumber(p, ci), ci
    if kind == "case-outputs-disagree":
        conds = {}
        for r in d_regions:
            if R[r]["kind"] == "case":
                conds.setdefault(R[r]["parent"], []).append(r)
        cands = [rs for rs in conds.values() if len(rs) >= 2]
        rs = pick(cands)
        if rs is None:
            return None
        r = rs[sel % len(rs)]
        ci = close_index(p, r)
        outs = evs[ci]["outs"]
        if outs:
            evs[ci]["outs"] = outs[:-1] if not _linear_drop(p, outs[-1]) else outs + [outs[0]]
            if evs[ci]["outs"] == outs:
                return None
        else:
            w = (lw.get(r) or [None])[0]
            if w is None:
                return None
            evs[ci]["outs"] = [w]
        later = max(close_index(p, x) for x in rs)
        return p, min(ci, later) if ci == later else ci
    if kind in ("case-index-out-of-range", "case-built-twice"):
        cands = [(i, ev) for i, ev in enumerate(evs) if ev["e"] == "case"]
        c = pick(cands)
        if c is None:
            return None
        i, ev = c
        n = sum(1 for e2 in evs if e2["e"] == "case" and e2["c"] == ev["c"])
        new = dict(ev, i=(n + sel % 3) if kind == "case-index-out-of-range" else ev["i"])
        evs.insert(i + 1, new)
        return _renumber(p, i + 1), i + 1
    if kind == "cond-exit-unbuilt":
        cands = []
        for i, ev in enumerate(evs):
            if ev["e"] == "cond":
                cases = [j for j, e2 in enumerate(evs) if e2["e"] == "case" and e2["c"] == i]
                if cases:
                    cands.append((i, max(cases)))
        c = pick(cands)
        if c is None:
            return None
        i, last_case = c
        pos = last_case  # before the last case is added
        evs.insert(pos, {"e": "ctx_exit", "c": i})
        return _renumber(p, pos), pos
    if kind == "exit-row-mismatch":
        cands = [(i, ev) for i, ev in enumerate(evs) if ev["e"] == "branch" and ev["dst"] == "exit"]
        c = pick(cands)
        if c is None:
            return None
        i, ev = c
        cfg = ev["c"]
        pos = i + 1
        new = [
            {"e": "block", "c": cfg, "ins": []},
            {"e": "op", "r": pos, "op": {"k": "Custom", "ext": "gen.ext", "name": "mk", "i": [], "o": [{"k": "sum", "rows": [[{"k": "unitsum", "n": 5}, {"k": "usize"}]]}], "reqs": [], "desc": "", "args": []}, "args": [], "mode": "add_op", "meta": None},
            {"e": "close", "r": pos, "outs": [{"n": pos + 1, "o": 0}], "mode": "set_outputs"},
            {"e": "branch", "c": cfg, "src": {"b": pos, "i": 0}, "dst": "exit"},
        ]
        p2 = _insert_many(p, pos, new)
        return p2, pos + 3
    if kind == "function-outputs-differ":
        cands = [(i, ev) for i, ev in enumerate(evs) if ev["e"] == "func" and ev["outs"] is not None and close_index(p, i) is not None]
        c = pick(cands)
        if c is None:
            return None
        i, ev = c
        ci = close_index(p, i)
        outs = evs[ci]["outs"]
        if outs:
            evs[ci]["outs"] = outs[:-1]
        else:
            w = (lw.get(i) or [None])[0]
            if w is None:
                return None
            evs[ci]["outs"] = [w]
        return p, ci
    if kind in ("poly-call-no-instantiation", "poly-call-wrong-arg-count", "poly-call-no-type-args"):
        cands = [(i, ev) for i, ev in enumerate(evs) if ev["e"] in ("call", "load_func") and ev["sig"]["params"]]
        c = pick(cands)
        if c is None:
            return None
        i, ev = c
        if kind == "poly-call-no-instantiation":
            ev["drop_instantiation"] = True
        elif kind == "poly-call-no-type-args":
            ev["drop_all_type_args"] = True
        else:
            ev["drop_type_arg"] = True
        return p, i
    if kind == "non-function-called":
        cands = []
        for i, ev in enumerate(evs):
            if ev["e"] == "op" and ev["r"] in R and R[ev["r"]]["sub"] == "D" and ref.ref_sig(ev["op"])["outs"]:
                cands.append((i, ev["r"]))
            if ev["e"] in ("call", "load_func") and ev["r"] in R and R[ev["r"]]["sub"] == "D" and (ev["e"] == "load_func" or (ev["sig"]["o"] and not ev["sig"]["params"])):
                # calls and function loads carry the callee's signature but are not functions
                cands += [(i, ev["r"])] * 3
        c = pick(cands)
        if c is None:
            return None
        i, r = c
        evs.insert(i + 1, {"e": "call", "r": r, "f": i, "args": [], "targs": None, "sig": {"params": [], "i": [], "o": [], "reqs": []}})
        return _renumber(p, i + 1), i + 1
    if kind == "non-dataflow-wire":
        cands = []
        for i, ev in enumerate(evs):
            if ev["e"] in ("const", "func") and (ev.get("r", ev.get("m")) in R):
                holder = ev.get("r", ev.get("m"))
                if R[holder]["sub"] != "D":
                    continue
                ci = close_index(p, holder)
                if ci is not None and ci > i:
                    cands.append((i, holder, ci))
        c = pick(cands)
        if c is None:
            return None
        i, r, ci = c
        evs.insert(ci, {"e": "op", "r": r, "op": NOOP, "args": [{"n": i, "o": 0}], "mode": "add_op", "partial": True, "meta": None})
        return _renumber(p, ci), ci
    if kind == "order-port-as-wire":
        # the state-order port of a sibling with value outputs, used as a value
        cands = []
        for i, ev in enumerate(evs):
            if ev["e"] == "op" and ev["r"] in R and R[ev["r"]]["sub"] == "D" and ref.ref_sig(ev["op"])["outs"] and close_index(p, ev["r"]) is not None and close_index(p, ev["r"]) > i:
                cands.append((i, ev["r"]))
        c = pick(cands)
        if c is None:
            return None
        i, r = c
        ci = close_index(p, r)
        evs.insert(ci, {"e": "op", "r": r, "op": NOOP, "args": [{"n": i, "o": -1}], "mode": "add_op", "partial": True, "meta": None})
        return _renumber(p, ci), ci
    if kind == "root-as-wire":
        # the root node of the HUGR itself used as a wire: it is nobody's sibling
        cands = [r for r in d_regions if R[r]["tree"] == -1]
        r = pick(cands)
        if r is None:
            return None
        ci = close_index(p, r)
        evs.insert(ci, {"e": "op", "r": r, "op": NOOP, "args": [{"root": sel % 2}], "mode": "add_op", "partial": True, "meta": None})
        return _renumber(p, ci), ci
    if kind == "non-dataflow-wire-across-blocks":
        # a constant held by one basic block used as a value in another block of the same CFG
        cands = []
        blocks = [r for r in d_regions if R[r]["kind"] == "block"]
        for b2 in blocks:
            for b1 in blocks:
                if b1 != b2 and R[b1]["parent"] == R[b2]["parent"] and R[b1]["tree"] == R[b2]["tree"] and R[b1]["open"] < close_index(p, b2):
                    cands.append((b1, b2))
        c = pick(cands)
        if c is None:
            return None
        b1, b2 = c
        ci = close_index(p, b2)
        b1s, b2s = (b1 + 2 if b1 >= ci else b1), (b2 + 2 if b2 >= ci else b2)
        new = [
            {"e": "const", "r": b1s, "v": {"k": "true"}},
            {"e": "op", "r": b2s, "op": NOOP, "args": [{"n": ci, "o": 0}], "mode": "add_op", "partial": True, "meta": None},
        ]
        return _insert_many(p, ci, new), ci + 1
    if kind == "int-wire-in-dfg":
        cands = [(i, ev) for i, ev in enumerate(evs) if ev["e"] == "op" and ev["args"] and ev.get("mode") in ("add", "extend")]
        c = pick(cands)
        if c is None:
            return None
        i, ev = c
        ev["int_arg"] = sel % len(ev["args"])
        return p, i
    if kind == "incomplete-op":
        cands = [i for i, ev in enumerate(evs) if ev["e"] == "close"]
        i = pick(cands)
        if i is None:
            return None
        del evs[i]
        return _renumber(p, i, delta=-1), i
    return None


def _linear_drop(p, w) -> bool:
    return False


def _shift(x, pos, delta):
    return x + delta if isinstance(x, int) and x >= pos else (f"{int(x[:-1]) + delta}i" if isinstance(x, str) and x.endswith("i") and int(x[:-1]) >= pos else x)


def _renumber(p, pos, delta=1):
    """Events were inserted (delta=1) / deleted (delta=-1) at pos: shift every event reference >= pos
    (references to the inserted event itself are written with their final index by the caller)."""
    inserted = pos if delta == 1 else None
    for i, ev in enumerate(p["events"]):
        if i == inserted:
            continue
        _renumber_event(ev, pos, delta)
    return p


def _renumber_event(ev, pos, delta):
    def sh(x):
        return _shift(x, pos, delta)

    def wire(w):
        if isinstance(w, dict):
            if "n" in w:
                w["n"] = sh(w["n"])
            if "in" in w:
                w["in"] = sh(w["in"])
            if "out" in w:
                w["out"] = sh(w["out"])
            if "b" in w:
                w["b"] = sh(w["b"])

    for k in ("r", "c", "if", "m", "f", "d", "cp", "host", "same_as"):
        if k in ev and ev[k] is not None:
            ev[k] = sh(ev[k])
    if "dst" in ev and ev["dst"] != "exit":
        ev["dst"] = sh(ev["dst"])
    for k in ("args", "outs", "just", "rest"):
        for w in ev.get(k, []) or []:
            wire(w)
    for k in ("sum", "cond", "a", "b", "src", "pred"):
        if isinstance(ev.get(k), dict):
            wire(ev[k])


def _insert_many(p, pos, new):
    n = len(new)
    for ev in p["events"]:
        _renumber_event(ev, pos, n)
    p["events"][pos:pos] = new
    return p


# ------------------------------------------------------------------ interpreter with injection hooks


def run_injected(p, watch=None):
    """Execute; returns (exception or None, index of the event that raised or 'to_json').
    watch(idx, ev, res) is called before every event (C16 observes handles through it)."""
    import hugr.tys as tys

    # the three in-event injections are realised by rewriting the event on the fly
    evs = p["events"]
    raised_at = [None]

    def before(idx, ev, res):
        raised_at[0] = idx
        if watch is not None:
            watch(idx, ev, res)

    p2 = copy.deepcopy(p)
    for ev in p2["events"]:
        if ev.get("drop_instantiation"):
            ev["__inst"] = "none"
        if ev.get("drop_type_arg"):
            ev["__inst"] = "short"
        if ev.get("drop_all_type_args"):
            ev["__inst"] = "noargs"
    try:
        r = _run(p2, before)
        raised_at[0] = "to_json"
        r.hugr.to_json()
        for b in r.builders.values():
            if getattr(b, "hugr", None) is not None and b.hugr is not r.hugr:
                pass
    except InvalidCase:
        raise
    except Exception as e:  # noqa: BLE001
        return e, raised_at[0]
    return None, None


def _run(p, before):
    """progrun.run with support for the injected event forms."""
    import hugr.tys as tys
    from vlib.interp import mk_arg, mk_row
    from vlib.ref import call_inst

    special = any(ev["e"] == "ctx_exit" or "__inst" in ev or "int_arg" in ev for ev in p["events"])
    if not special:
        return progrun.run(p, hooks={"before": before})
    # split execution: run up to the special event with the normal interpreter state, then handle it
    res_holder = {}

    def hook_before(idx, ev, res):
        before(idx, ev, res)
        res_holder["res"] = res
        if ev["e"] == "ctx_exit":
            res.builders[ev["c"]].__exit__(None, None, None)
            raise _Skip()
        if "__inst" in ev:
            b = res.builders[ev["r"]]
            f = res.nodes[ev["f"]]
            sig = ev["sig"]
            i, o, reqs = call_inst(dict(sig, targs=ev["targs"]))
            inst = tys.FunctionType(mk_row(i), mk_row(o), list(reqs))
            targs = [mk_arg(a) for a in ev["targs"]]
            if ev["__inst"] == "none":
                inst = None  # type arguments alone do not make the call concrete
            elif ev["__inst"] == "noargs":
                targs = None  # an instantiation without type arguments
            else:
                targs = targs[:-1]
            if ev["e"] == "call":
                ws = []
                for w in ev["args"]:
                    ws.append(res.builders[w["in"]].input_node.out(w["o"]) if "in" in w else res.nodes[w["n"]].out(w["o"]))
                b.call(f, *ws, instantiation=inst, type_args=targs)
            else:
                b.load_function(f, instantiation=inst, type_args=targs)
            raise _Accepted()
        if "int_arg" in ev:
            from vlib.interp import mk_op

            b = res.builders[ev["r"]]
            ws = []
            for k, w in enumerate(ev["args"]):
                if k == ev["int_arg"]:
                    ws.append(0)
                else:
                    ws.append(res.builders[w["in"]].input_node.out(w["o"]) if "in" in w else res.nodes[w["n"]].out(w["o"]))
            op = mk_op(ev["op"])
            if ev["mode"] == "add":
                b.add(op(*ws))
            else:
                b.extend(op(*ws))
            raise _Accepted()

    try:
        return progrun.run(p, hooks={"before": hook_before})
    except _Skip:
        # ctx_exit did not raise: continue after it is not meaningful; report acceptance
        raise _AcceptedSilently()


class _Skip(Exception):
    pass


class _Accepted(Exception):
    pass


class _AcceptedSilently(Exception):
    pass


_ek_cache: dict = {}


def effective_kind(case):
    """The requested kind if applicable to this program, else the next applicable one in
    catalogue order (so that few generated programs are wasted)."""
    from vlib.runner import chash

    key = chash(case)
    if key in _ek_cache:
        return _ek_cache[key]
    pool = case.get("kinds") or KINDS
    k0 = pool.index(case["kind"]) if case["kind"] in pool else 0
    out = None
    for j in range(len(pool)):
        k = pool[(k0 + j) % len(pool)]
        if k == "untracked-index":
            if j == 0:
                out = k
                break
            continue
        try:
            if inject(case["prog"], k, case["sel"]) is not None:
                out = k
                break
        except (KeyError, IndexError, TypeError, ValueError):
            continue
    _ek_cache.clear()
    _ek_cache[key] = out
    return out


def check(case) -> list[Fail]:
    prog = case["prog"]
    if not prog.get("complete", True):
        raise InvalidCase("incomplete")
    kind = effective_kind(case)
    if kind is None:
        raise InvalidCase("no injection applicable")
    if kind == "untracked-index":
        return check_untracked(case)
    inj = inject(prog, kind, case["sel"])
    if inj is None:
        raise InvalidCase("injection not applicable")
    p2, pos = inj
    # vacuity guard: the un-injected twin builds and serializes
    r, fails = run_program(prog)
    if r is None:
        raise InvalidCase("twin does not build")
    try:
        r.hugr.to_json()
    except Exception as e:  # noqa: BLE001
        raise InvalidCase("twin does not serialize") from e
    seen = {}

    def watch(idx, ev, res):
        seen["res"] = res

    try:
        exc, at = run_injected(p2, watch)
    except (_Accepted, _AcceptedSilently):
        return [Fail("silently-accepted", kind, f"injection at event {pos} was accepted")]
    except InvalidCase:
        raise
    if exc is None:
        return [Fail("silently-accepted", kind, f"injection at event {pos}: program built and serialized")]
    if isinstance(exc, _Accepted | _AcceptedSilently):
        return [Fail("silently-accepted", kind, f"injection at event {pos} was accepted")]
    entered, locus = exc_locus(exc)
    if isinstance(at, int) and at < pos:
        raise InvalidCase(f"raised before the injection ({at} < {pos}): {exc!r}")
    if not isinstance(exc, expected(kind)):
        if not entered:
            raise InvalidCase(f"harness exception {exc!r}")
        return [Fail("wrong-error", f"{kind}:{type(exc).__name__}", f"expected {[c.__name__ for c in expected(kind)]}, got {type(exc).__name__}: {exc}"[:300])]
    # a refused set_outputs stays refused: the same call a second time must not be accepted (the refusal must
    # not have recorded the rejected row)
    if isinstance(at, int) and "res" in seen and kind in ("function-outputs-differ", "case-outputs-disagree") and at < len(p2["events"]):
        ev2 = p2["events"][at]
        b2 = seen["res"].builders.get(ev2.get("r"))
        if ev2.get("e") == "close" and ev2.get("mode", "set_outputs") == "set_outputs" and b2 is not None:
            try:
                b2.set_outputs(*[seen["res"].wire(w) for w in ev2["outs"]])
                return [Fail("silently-accepted", f"{kind}:accepted-at-the-second-attempt", f"injection at event {pos}: {type(exc).__name__} the first time, nothing the second time")]
            except InvalidCase:
                raise
            except Exception:  # noqa: BLE001 - refused again
                pass
    if isinstance(at, int) and "res" in seen and kind == "exit-row-mismatch" and at < len(p2["events"]):
        ev3 = p2["events"][at]
        if ev3.get("e") == "branch" and ev3.get("dst") == "exit":
            cb = seen["res"].builders.get(ev3["c"])
            sb_ = seen["res"].builders.get(ev3["src"]["b"])
            if cb is not None and sb_ is not None:
                try:
                    cb.branch(sb_.parent_node.out(ev3["src"]["i"]), cb.exit)
                    return [Fail("silently-accepted", f"{kind}:accepted-at-the-second-attempt", f"injection at event {pos}: {type(exc).__name__} the first time, nothing the second time")]
                except Exception:  # noqa: BLE001 - refused again
                    pass
    # every builder is a context manager: the error must also leave the `with` blocks of the builders that
    # enclose the offending call (an __exit__ returning a true value would swallow it)
    if isinstance(at, int) and "res" in seen and at < len(p2["events"]):
        R2, _ = structure(p2)
        ev = p2["events"][at]
        r = ev.get("r", ev.get("c", ev.get("m")))
        chain = ([r] + list(ancestors(R2, r))) if r in R2 else []
        for rid in chain:
            b = seen["res"].builders.get(rid)
            if b is None or not hasattr(b, "__exit__"):
                continue
            try:
                swallowed = b.__exit__(type(exc), exc, exc.__traceback__)
            except Exception:  # noqa: BLE001 - raising another error is still refusing
                swallowed = False
            if swallowed:
                return [Fail("silently-accepted", f"{kind}:swallowed-by-{type(b).__name__}.__exit__", f"injection at event {pos}: {type(exc).__name__} raised, but leaving the enclosing `with` block suppresses it")]
    return []


def check_untracked(case) -> list[Fail]:
    import hugr.ops as ops
    import hugr.tys as tys
    from hugr.build.tracked_dfg import TrackedDfg

    n = case["sel"] % 4
    t = TrackedDfg(*([tys.Bool] * n), track_inputs=True)
    mode = case["sel"] % 3
    try:
        if mode == 0:
            idx = n + (case["sel"] % 5)  # never tracked
        elif mode == 1 and n:
            idx = case["sel"] % n
            t.untrack_wire(idx)  # untracked for good
        else:
            idx = n
        if case["sel"] % 2:
            t.add(ops.Noop()(idx))
        else:
            t.set_indexed_outputs(idx)
    except IndexError:
        return []
    except Exception as e:  # noqa: BLE001
        return [Fail("wrong-error", f"untracked-index:{type(e).__name__}", str(e)[:200])]
    return [Fail("silently-accepted", "untracked-index", f"index {idx} of {n} tracked wires accepted")]


def position(case):
    prog = case["prog"]
    kind = effective_kind(case)
    inj = inject(prog, kind, case["sel"]) if kind not in (None, "untracked-index") else None
    if inj is None:
        return None, 0
    p2, pos = inj
    R, evr = structure(p2)
    ev = p2["events"][pos] if pos < len(p2["events"]) else {}
    r = ev.get("r", ev.get("c", ev.get("m", -1)))
    return pos, depth(R, r) if r in R else 0


def nontrivial(case) -> bool:
    if effective_kind(case) == "untracked-index":
        return True
    pos, d = position(case)
    return pos is not None and (d >= 1 or pos >= 3)


def classes(case):
    pos, d = position(case)
    return [str(effective_kind(case))] + ([f"depth{min(d, 3)}"] if pos is not None else [])


def strategy(tier):
    return st.fixed_dictionaries(
        {"prog": proggen.programs(size=14 if tier == "quick" else 24, max_depth=2), "kind": st.sampled_from(KINDS), "sel": st.integers(0, 50)}
    )


def targeted(kinds, roots, call_bias=False):
    return lambda tier: st.fixed_dictionaries(
        {"prog": proggen.programs(size=22, max_depth=2, roots=roots, call_bias=call_bias), "kind": st.sampled_from(kinds), "kinds": st.just(kinds), "sel": st.integers(0, 50)}
    )


def check_nested_tracked(case) -> list[Fail]:
    """Tracked builders nested in one host (TrackedDfg.new_nested): whatever one of them tracked (or failed to
    track), an index that a sibling never tracked is refused there by every operation that takes indices."""
    import hugr.ops as ops
    import hugr.tys as tys
    from hugr.build.dfg import Dfg
    from hugr.build.tracked_dfg import TrackedDfg

    outer = Dfg(*[tys.Bool] * (1 + case["n"]))
    sibs = [TrackedDfg.new_nested(ops.DFG([]), outer.hugr, outer.parent_node) for _ in range(2 + case["extra"])]
    for j in range(case["n"] + 1):
        try:
            sibs[0].track_wire(outer.inputs()[j])
        except Exception:  # noqa: BLE001 - a builder that carries no tracking state refuses; nothing is tracked then
            pass
    b = sibs[1 + case["which"] % (len(sibs) - 1)]
    idx = case["idx"] % (case["n"] + 1)
    before = store.snapshot(outer.hugr)
    uses = {"add": lambda: b.add(ops.Noop()(idx)), "set_indexed_outputs": lambda: b.set_indexed_outputs(idx), "untrack_wire": lambda: b.untrack_wire(idx), "tracked_wire": lambda: b.tracked_wire(idx), "extend": lambda: b.extend(ops.Noop()(idx))}
    fails = []
    try:
        uses[case["use"]]()
        fails.append(Fail("silently-accepted", "untracked-index-in-nested-tracked-builder:" + case["use"], f"index {idx} was tracked by a sibling builder only"))
    except Exception:  # noqa: BLE001
        if store.snapshot(outer.hugr) != before:
            fails.append(Fail("refused-but-recorded", "untracked-index-in-nested-tracked-builder:" + case["use"], ""))
    return fails


SUBS = [
    Sub("nested-tracked-index", check_nested_tracked, strategy=lambda tier: st.fixed_dictionaries({"n": st.integers(0, 2), "extra": st.integers(0, 1), "which": st.integers(0, 3), "idx": st.integers(0, 3),
                                                                                                  "use": st.sampled_from(["add", "set_indexed_outputs", "untrack_wire", "tracked_wire", "extend"])}),
        nontrivial=lambda c: True, classes=lambda c: [c["use"]], n_quick=120, n_thorough=500),
    Sub("injected", check, fuzz_runs=800, strategy=strategy, nontrivial=nontrivial, classes=classes, n_quick=400, n_thorough=3000, sample_ok=lambda c: len(json.dumps(c)) < 2500),
    Sub("cfg-injections", check, strategy=targeted(["outside-cfg-wire", "exit-row-mismatch", "non-dataflow-wire-across-blocks", "root-as-wire", "order-port-as-wire"], ("cfg", "dfg", "function")), nontrivial=nontrivial, classes=classes, n_quick=150, n_thorough=800,
        sample_ok=lambda c: len(json.dumps(c)) < 2500),
    Sub("cond-injections", check, strategy=targeted(["case-outputs-disagree", "case-index-out-of-range", "case-built-twice", "cond-exit-unbuilt"], ("cond", "dfg", "function")), nontrivial=nontrivial,
        classes=classes, n_quick=150, n_thorough=800, sample_ok=lambda c: len(json.dumps(c)) < 2500),
    Sub("call-injections", check, strategy=targeted(["poly-call-no-instantiation", "poly-call-wrong-arg-count", "poly-call-no-type-args", "non-function-called", "function-outputs-differ", "non-dataflow-wire", "incomplete-op"], ("module",), True),
        nontrivial=nontrivial, classes=classes, n_quick=150, n_thorough=800, sample_ok=lambda c: len(json.dumps(c)) < 2500),
]
