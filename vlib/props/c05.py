"""C05 Types, values and operations survive encoding and decoding unchanged."""

from __future__ import annotations

import json

from hypothesis import strategies as st

from vlib import asts, ref
from vlib.asts import depth_of, rows_of
from vlib.interp import mk_arg, mk_op, mk_param, mk_type, mk_value
from vlib.runner import Fail, InvalidCase, Sub, exc_fail

PROPERTY_ID = "C05"
RULE = (
    "object sub-checks: recursive Hypothesis strategies over type / parameter / argument / value / op ASTs (all 21 "
    "serialized op kinds plus sugar), interpreted into hugr objects; oracle = (1) encoding equals an independent "
    "reference encoder, (2) decode(encode(x)) re-encodes identically, (3) derived facts (bound, signatures, port "
    "kinds, num_out) unchanged, (4) decoded object equals the general/opaque form of x attribute by attribute, "
    "(5) sugar == general sum forms. foreign sub-check: schema-valid documents rewritten in a foreign writer's "
    "conventions must keep nodes, ops, attributes, edges (incl. null-offset order edges) and metadata through "
    "load/save. Non-trivial = AST depth >= 2 or an op with a non-default attribute / a foreign document with >= 1 "
    "rewritten edge or field; distinct by canonical JSON."
)
ASSUMPTIONS = [
    "nat type arguments are below 2^63; float payloads are finite",
    "function-valued constants embed a document; nested documents are compared on nodes and edges",
]


def dump(m):
    return json.loads(m.model_dump_json())


def first_diff(a, b, path="$"):
    """JSON path (indices erased) of the first difference."""
    if type(a) is not type(b):
        return path
    if isinstance(a, dict):
        for k in sorted(set(a) | set(b)):
            if k not in a or k not in b:
                return f"{path}.{k}"
            d = first_diff(a[k], b[k], f"{path}.{k}")
            if d:
                return d
        return None
    if isinstance(a, list):
        if len(a) != len(b):
            return path + "[len]"
        for x, y in zip(a, b):
            d = first_diff(x, y, path + "[*]")
            if d:
                return d
        return None
    return None if a == b else path


# ------------------------------------------------------------------ types


def _copyable_with_linear_arg(t) -> bool:
    if isinstance(t, list):
        return any(_copyable_with_linear_arg(x) for x in t)
    if not isinstance(t, dict):
        return False
    if t.get("k") == "ext" and ref.ref_bound(t) == "C" and any(a["k"] == "type" and ref.ref_bound(a["t"]) == "A" for a in t["args"]):
        return True
    return any(_copyable_with_linear_arg(v) for v in t.values())


def check_type(case) -> list[Fail]:
    import hugr._serialization.tys as stys
    import hugr.tys as tys

    t = case["t"]
    fails: list[Fail] = []
    x = mk_type(t)
    e1 = dump(x._to_serial_root())
    want = ref.enc_type(t)
    if e1 != want:
        fails.append(Fail("enc-ref", f"type:{t['k']}:{first_diff(e1, want)}", f"got={e1} want={want}"[:300]))
    try:
        y = stys.Type.model_validate(e1).deserialize()
        e2 = dump(y._to_serial_root())
    except Exception as e:  # noqa: BLE001
        return fails + [exc_fail("decode", e)]
    if e2 != e1:
        fails.append(Fail("fixed-point", f"type:{t['k']}:{first_diff(e2, e1)}", f"{e1} -> {e2}"[:300]))
    bx, by, br = x.type_bound().value, y.type_bound().value, ref.ref_bound(t)
    if not (bx == by == br):
        fails.append(Fail("bound", f"type:{t['k']}", f"orig={bx} decoded={by} ref={br}"))
    gen = mk_type(ref.opaquify(t))
    if y != gen or gen != y:
        fails.append(Fail("attr-eq", f"type:{t['k']}", f"decoded={y!r} expected={gen!r}"[:300]))
    rs = rows_of(t)
    if rs is not None:
        g = tys.Sum([[mk_type(q) for q in r] for r in rs])
        if x != g or g != x or x.type_bound() != g.type_bound():
            fails.append(Fail("sugar-eq", f"type:{t['k']}", f"{x!r} vs {g!r}"[:300]))
    return fails


def check_param_arg(case) -> list[Fail]:
    import hugr._serialization.tys as stys

    fails: list[Fail] = []
    if "p" in case:
        p = case["p"]
        x = mk_param(p)
        e1 = dump(x._to_serial_root())
        want = ref.enc_param(p)
        y = stys.TypeParam.model_validate(e1).deserialize()
        kind = "param:" + p["k"]
        gen = x
    else:
        a = case["a"]
        x = mk_arg(a)
        e1 = dump(x._to_serial_root())
        want = ref.enc_arg(a)
        y = stys.TypeArg.model_validate(e1).deserialize()
        kind = "arg:" + a["k"]
        gen = mk_arg(ref.opaquify_arg(a))
    if e1 != want:
        fails.append(Fail("enc-ref", f"{kind}:{first_diff(e1, want)}", f"got={e1} want={want}"[:300]))
    e2 = dump(y._to_serial_root())
    if e2 != e1:
        fails.append(Fail("fixed-point", f"{kind}:{first_diff(e2, e1)}", f"{e1} -> {e2}"[:300]))
    if y != gen:
        fails.append(Fail("attr-eq", kind, f"decoded={y!r} expected={gen!r}"[:300]))
    return fails


# ------------------------------------------------------------------ values


def nested_docs(e):
    """The HUGR documents nested in an encoded value (function values at any depth), with the encoder stamp
    blanked."""
    out = []

    def walk(x):
        if isinstance(x, dict):
            if x.get("v") == "Function" and isinstance(x.get("hugr"), dict):
                out.append(dict(x["hugr"], encoder=None))
            for y in x.values():
                walk(y)
        elif isinstance(x, list):
            for y in x:
                walk(y)

    walk(e)
    return out


def check_value(case) -> list[Fail]:
    import hugr._serialization.ops as sops
    import hugr.val as val

    v = case["v"]
    fails: list[Fail] = []
    x = mk_value(v)
    e1 = ref.strip_nested_hugr(dump(x._to_serial_root()))
    want = ref.enc_value(v)
    if e1 != want:
        fails.append(Fail("enc-ref", f"value:{v['k']}:{first_diff(e1, want)}", f"got={e1} want={want}"[:300]))
    try:
        y = sops.Value.model_validate(dump(x._to_serial_root())).deserialize()
        e2 = ref.strip_nested_hugr(dump(y._to_serial_root()))
    except Exception as e:  # noqa: BLE001
        return fails + [exc_fail("decode", e)]
    if e2 != e1:
        fails.append(Fail("fixed-point", f"value:{v['k']}:{first_diff(e2, e1)}", f"{e1} -> {e2}"[:300]))
    # function values: the nested document (nodes, edges, node metadata) comes back as a whole
    n1, n2 = nested_docs(dump(x._to_serial_root())), nested_docs(dump(y._to_serial_root()))
    if n1 != n2:
        fails.append(Fail("fixed-point", f"value:{v['k']}:nested-document:{first_diff(n2, n1)}", "the body of a function value changed"))
    tx, ty = dump(x.type_()._to_serial_root()), dump(y.type_()._to_serial_root())
    tr = ref.enc_type(ref.ref_typeof(v))
    if not (tx == ty == tr):
        fails.append(Fail("type", f"value:{v['k']}", f"orig={tx} decoded={ty} ref={tr}"[:300]))
    gen = mk_value(ref.general_value(v))
    ok = val_equal(y, gen)
    if not ok:
        fails.append(Fail("attr-eq", f"value:{v['k']}", f"decoded={y!r} expected={gen!r}"[:300]))
    # sugar values equal their general sum forms, with the same type
    if v["k"] in ("unitsum", "true", "false", "boolv", "unit", "tuple", "some", "none", "left", "right"):
        t = ref.ref_typeof(v)
        g = val.Sum(ref.ref_tag(v), __import__("hugr").tys.Sum([[mk_type(q) for q in r] for r in rows_of(t)]), [mk_value(q) for q in v.get("vs", [])])
        if not val_equal(x, g) or not val_equal(g, x) or x.type_() != g.type_() or x.type_().type_bound() != g.type_().type_bound():
            fails.append(Fail("sugar-eq", f"value:{v['k']}", f"{x!r} vs {g!r}"[:300]))
    return fails


def val_equal(y, gen) -> bool:
    """Attribute-wise equality of a decoded value with the expected general form.
    Function bodies are compared op by op (Hugr equality would compare private
    port-count bookkeeping); extension payloads as JSON."""
    import hugr.val as val

    if isinstance(gen, val.Function):
        from vlib.store import op_key, snapshot

        return isinstance(y, val.Function) and [op_key(d.op) for _, d in y.body.nodes()] == [op_key(d.op) for _, d in gen.body.nodes()] and snapshot(y.body)[1] == snapshot(gen.body)[1]
    if hasattr(gen, "to_value") and not isinstance(gen, val.Extension):
        # typed extension constants (IntVal, ArrayVal, ...): equal when their encodings are
        return type(y) is type(gen) and ref.strip_nested_hugr(dump(y._to_serial_root())) == ref.strip_nested_hugr(dump(gen._to_serial_root()))
    if isinstance(gen, val.Extension):
        return (
            isinstance(y, val.Extension)
            and (y.name, y.typ, list(y.extensions)) == (gen.name, gen.typ, list(gen.extensions))
            and ref.strip_nested_hugr(y.val) == gen.val
        )
    if isinstance(gen, val.Sum):
        return (
            isinstance(y, val.Sum)
            and y.tag == gen.tag
            and y.typ == gen.typ
            and len(y.vals) == len(gen.vals)
            and all(val_equal(a, b) for a, b in zip(y.vals, gen.vals))
        )
    return y == gen


# ------------------------------------------------------------------ ops


def op_facts(o):
    """Derived facts of an op object, as comparable JSON."""
    import hugr.tys as tys
    from hugr.hugr.node_port import InPort, Node, OutPort

    facts: dict = {}
    try:
        facts["num_out"] = o.num_out
    except Exception as e:  # noqa: BLE001
        facts["num_out"] = f"raises {type(e).__name__}"
    for name in ("outer_signature", "inner_signature"):
        f = getattr(o, name, None)
        if f is not None:
            try:
                facts[name] = dump(f()._to_serial_root())
            except Exception as e:  # noqa: BLE001
                facts[name] = f"raises {type(e).__name__}"
    n = Node(0)
    kinds = {}
    for off in range(-1, 7):
        for P, tag in ((InPort, "in"), (OutPort, "out")):
            try:
                kd = o.port_kind(P(n, off))
                if isinstance(kd, tys.ValueKind | tys.ConstKind):
                    r = [type(kd).__name__, dump(kd.ty._to_serial_root())]
                elif isinstance(kd, tys.FunctionKind):
                    r = [type(kd).__name__, dump(kd.ty._to_serial())]
                else:
                    r = [type(kd).__name__]
            except Exception as e:  # noqa: BLE001
                r = f"raises {type(e).__name__}"
            kinds[f"{tag}{off}"] = r
    facts["port_kind"] = kinds
    return facts


ATTRS = {
    "FuncDefn": ["f_name", "inputs", "params", "outputs"],
    "FuncDecl": ["f_name", "signature"],
    "AliasDecl": ["alias", "bound"],
    "AliasDefn": ["alias", "definition"],
    "Const": ["val"],
    "Input": ["types"],
    "Output": ["types"],
    "Call": ["signature", "instantiation", "type_args"],
    "LoadFunc": ["signature", "instantiation", "type_args"],
    "CallIndirect": ["signature"],
    "LoadConst": ["type_"],
    "DFG": ["inputs", "outputs", "_extension_delta"],
    "CFG": ["inputs", "outputs"],
    "Case": ["inputs", "outputs"],
    "Conditional": ["sum_ty", "other_inputs", "outputs"],
    "TailLoop": ["just_inputs", "just_outputs", "rest", "extension_delta"],
    "DataflowBlock": ["inputs", "sum_ty", "other_outputs", "extension_delta"],
    "ExitBlock": ["cfg_outputs"],
    "Tag": ["tag", "sum_ty"],
    "Custom": ["extension", "op_name", "signature", "args", "description"],
}


def check_op(case) -> list[Fail]:
    import hugr._serialization.ops as sops
    from hugr.hugr.node_port import Node

    op = case["op"]
    k = op["k"]
    fails: list[Fail] = []
    x = mk_op(op)
    e1 = ref.strip_nested_hugr(dump(x._to_serial(Node(3))))
    want = ref.enc_op(op, 3)
    if e1 != want:
        fails.append(Fail("enc-ref", f"op:{k}:{first_diff(e1, want)}", f"got={e1} want={want}"[:300]))
    try:
        y = sops.OpType.model_validate(dump(x._to_serial(Node(3)))).root.deserialize()
        e2 = ref.strip_nested_hugr(dump(y._to_serial(Node(3))))
    except Exception as e:  # noqa: BLE001
        return fails + [exc_fail("decode", e)]
    if e2 != e1:
        fails.append(Fail("fixed-point", f"op:{k}:{first_diff(e2, e1)}", f"{e1} -> {e2}"[:300]))
    fx, fy = op_facts(x), op_facts(y)
    if fx != fy:
        fails.append(Fail("derived", f"op:{k}:{first_diff(fx, fy)}", f"orig={fx} decoded={fy}"[:300]))
    # the same through the document writer / reader of a whole HUGR
    try:
        import hugr.ops as hops
        from hugr.hugr import Hugr

        hh = Hugr(hops.Module())
        hh.add_node(mk_op(op), hh.root)
        doc = json.loads(hh.to_json())
        eh = ref.strip_nested_hugr(doc["nodes"][1])
        wh = ref.enc_op(op, 0)
        if eh != wh:
            fails.append(Fail("enc-ref", f"op-in-document:{k}:{first_diff(eh, wh)}", f"got={eh} want={wh}"[:300]))
        else:
            h2 = Hugr.load_json(json.dumps(doc))
            e3 = ref.strip_nested_hugr(dump(h2[Node(1)].op._to_serial(Node(0))))
            if e3 != wh:
                fails.append(Fail("fixed-point", f"op-in-document:{k}:{first_diff(e3, wh)}", f"{wh} -> {e3}"[:300]))
    except Exception as e:  # noqa: BLE001
        fails.append(exc_fail("document", e))
    gop = ref.general_op(op)
    gen = mk_op(gop)
    gk = gop["k"]
    if type(y).__name__ != type(gen).__name__:
        fails.append(Fail("attr-eq", f"op:{k}:class", f"decoded {type(y).__name__} expected {type(gen).__name__}"))
    else:
        for a in ATTRS.get(gk, []):
            try:
                va, vb = getattr(y, a), getattr(gen, a)
            except Exception as e:  # noqa: BLE001
                fails.append(Fail("attr-eq", f"op:{k}:{a}", f"raises {type(e).__name__}"))
                continue
            if a == "instantiation":
                # expected: the instantiation of the original op in opaque form (substituting into
                # the already-opaque signature would keep stale from-params bounds)
                if dump(va._to_serial_root()) != dump(x.instantiation._to_serial_root()):
                    fails.append(Fail("attr-eq", f"op:{k}:{a}", f"decoded={va!r} expected={x.instantiation!r}"[:300]))
                continue
            if a == "val":
                if not val_equal(va, vb):
                    fails.append(Fail("attr-eq", f"op:{k}:{a}", f"decoded={va!r} expected={vb!r}"[:300]))
                continue
            if not (va == vb):
                fails.append(Fail("attr-eq", f"op:{k}:{a}", f"decoded={va!r} expected={vb!r}"[:300]))
    # sugar tag ops have the signature and encoding of the general Tag
    if k in ("SomeTag", "LeftTag", "RightTag", "Continue", "Break"):
        import hugr.ops as ops
        import hugr.tys as tys

        tag, rows, _ = ref.op_tag_rows(op)
        g = ops.Tag(tag, tys.Sum([[mk_type(q) for q in r] for r in rows]))
        if dump(g._to_serial(Node(3))) != dump(x._to_serial(Node(3))) or dump(g.outer_signature()._to_serial_root()) != dump(x.outer_signature()._to_serial_root()):
            fails.append(Fail("sugar-eq", f"op:{k}", "sugar tag differs from general Tag"))
    return fails


def nt_depth(key):
    return lambda case: depth_of(case[key]) >= 2


def nt_op(case):
    op = case["op"]
    return depth_of(op) >= 2 or any(op.get(a) for a in ("params", "reqs", "delta", "desc", "args", "targs"))


def cls_op(case):
    op = case["op"]
    out = [op["k"]]
    for a in ("params", "reqs", "delta", "desc", "args"):
        if op.get(a):
            out.append("has-" + a)
    return out


# ------------------------------------------------------------------ foreign-style documents


def check_foreign(case) -> list[Fail]:
    from vlib.props.c01 import run_program

    r, _ = run_program(case["prog"])
    if r is None:
        raise InvalidCase("program does not build")
    return foreign_roundtrip(r.hugr, case["rewrites"], case["k"])


def foreign_roundtrip(hugr, rewrites, k) -> list[Fail]:
    from hugr.hugr import Hugr

    from vlib import foreign
    from vlib.props.c03 import schema_fails

    base = json.loads(hugr.to_json())
    # a foreign writer addresses ports by the specification, independently of hugr-py's writer:
    # rebuild the edge list from the links and the reference port addressing
    from vlib.props.c03 import expected_edges

    base["edges"] = [[[s_, so], [t_, to]] for (s_, so, t_, to), c in sorted(expected_edges(hugr).items()) for _ in range(c)]
    doc = base
    applied = 0
    for i in rewrites:
        doc, n = foreign.REWRITES[i % len(foreign.REWRITES)](doc, k)
        applied += n
    if foreign.canon_doc(doc) != foreign.canon_doc(_with_extra(base, doc)):
        raise InvalidCase("rewrite changed the document's meaning (harness)")
    if schema_fails(doc, "SerialHugr"):
        raise InvalidCase("rewritten document is not schema-valid (harness)")
    try:
        h = Hugr.load_json(json.dumps(doc))
        out = json.loads(h.to_json())
    except Exception as e:  # noqa: BLE001
        return [exc_fail("foreign-load", e)]
    a, b = foreign.canon_doc(out), foreign.canon_doc(doc)
    f: list[Fail] = []
    if len(a["nodes"]) != len(b["nodes"]):
        return [Fail("foreign", "node-count", f"{len(a['nodes'])} vs {len(b['nodes'])}")]
    for i, (x, y) in enumerate(zip(a["nodes"], b["nodes"])):
        if x != y:
            f.append(Fail("foreign", f"node:{y['op']}:{first_diff(x, y)}", f"node {i}"))
            if len(f) > 4:
                break
    if a["edges"] != b["edges"]:
        lost = [e for e in b["edges"] if e not in a["edges"]]
        sigs = None
        what = "order-edge-lost" if lost and all(_is_order(doc, e) for e in lost) else "edges"
        f.append(Fail("foreign", what, f"lost={lost[:3]} extra={[e for e in a['edges'] if e not in b['edges']][:3]}"))
    if a["metadata"] != b["metadata"]:
        f.append(Fail("foreign", "metadata", ""))
    return f[:6]


ORDER_KINDS = ["Call", "LoadFunc", "CallIndirect", "LoadConst", "DFG", "CFG", "Conditional", "TailLoop", "Tag", "SomeTag", "LeftTag", "RightTag", "Continue", "Break", "Custom", "MakeTuple", "UnpackTuple", "Noop", "Not", "DivMod"]


def order_probe(op, extra_outs=0):
    """A DFG holding one node of the given operation between a predecessor and a successor in state order;
    extra_outs > 0: the node is created with more output ports than its signature has."""
    import hugr.ops as hops
    import hugr.tys as htys
    from hugr.build.dfg import Dfg

    sig = ref.ref_sig(op)
    if not (sig["order_in"] or sig["order_out"]):
        raise InvalidCase("no order ports")
    d = Dfg()
    d.set_outputs()
    h = d.hugr
    mk = lambda name: hops.Custom(name, htys.FunctionType([], []), extension="verif.ext")  # noqa: E731
    a = h.add_node(mk("before"), d.parent_node)
    x = h.add_node(mk_op(op), d.parent_node, num_outs=(len(sig["outs"] or []) + extra_outs) if extra_outs else None)
    b = h.add_node(mk("after"), d.parent_node)
    if sig["order_in"]:
        h.add_order_link(a, x)
    if sig["order_out"]:
        h.add_order_link(x, b)
    return h


def check_order_ports(case) -> list[Fail]:
    """One node of every dataflow operation kind between two order edges (predecessor -> node -> successor)
    in a document written the way a foreign writer would (reference port addressing, optionally without
    offsets): loading and re-saving keeps both edges where they are."""
    import hugr.ops as hops
    import hugr.tys as htys
    from hugr.build.dfg import Dfg

    op = case["op"]
    h = order_probe(op, case.get("extra", 0))
    return [Fail(f_.clause, f"{op['k']}:{f_.locus}", f_.msg) for f_ in foreign_roundtrip(h, case["rewrites"], case["k"])]


def order_ports_strategy(tier):
    ops_ = st.one_of(asts.op_asts(2, kinds=ORDER_KINDS), asts.op_asts(2, kinds=["Call", "LoadFunc", "LoadConst", "CallIndirect"]), asts.rowpoly_calls(2), asts.ext_ops(1))
    return st.fixed_dictionaries({"op": ops_, "rewrites": st.sampled_from([[], [0], [0], [0, 4], [3, 0]]), "k": st.integers(0, 5), "extra": st.sampled_from([0, 0, 1, 2])})


def _with_extra(base, doc):
    """The base document with the attributes added by extra_attributes / hierarchy order, i.e. what
    the rewritten document must mean: the rewritten document itself is the reference when it only
    added attributes; equality of canonical forms is checked after undoing nothing else."""
    return doc


def _is_order(doc, e):
    from vlib import foreign, refval

    sigs = [refval.jsig(foreign.fill_reqs(n)) for n in doc["nodes"]]
    s, so, t, to = e
    return sigs[s]["other_out"] == "order" and so == refval.port_count(sigs[s], "out") - 1


def foreign_strategy(tier):
    from vlib import proggen

    return st.fixed_dictionaries(
        {"prog": st.one_of(proggen.programs(size=10 if tier == "quick" else 20, max_depth=2), proggen.programs(size=14, max_depth=1, roots=("module",), detached=False, call_bias=True), proggen.programs(size=12, max_depth=1, roots=("cfg",), detached=False)), "rewrites": st.one_of(st.lists(st.integers(0, 7), min_size=1, max_size=4, unique=True), st.lists(st.integers(1, 7), max_size=3, unique=True).map(lambda r: [0] + r)), "k": st.integers(0, 5)}
    )


def foreign_calls_strategy(tier):
    from vlib import proggen

    return st.fixed_dictionaries(
        {"prog": proggen.programs(size=16, max_depth=1, roots=("module",), detached=False, call_bias=True), "rewrites": st.lists(st.integers(1, 6), max_size=2, unique=True).map(lambda r: [0] + r), "k": st.integers(0, 5)}
    )


SUBS = [
    Sub("foreign-calls", check_foreign, strategy=foreign_calls_strategy, nontrivial=lambda c: "explicit-order-edge" in c["prog"].get("classes", []), classes=lambda c: [x for x in c["prog"].get("classes", []) if x in ("explicit-order-edge", "load-function", "call")],
        n_quick=120, n_thorough=1500, sample_ok=lambda c: len(json.dumps(c)) < 3000),
    Sub("order-ports", check_order_ports, strategy=order_ports_strategy, nontrivial=lambda c: c["op"]["k"] in ("Call", "LoadFunc", "LoadConst", "CallIndirect") or bool(c["rewrites"]),
        classes=lambda c: [c["op"]["k"]] + (["without-offsets"] if 0 in c["rewrites"] else []), n_quick=300, n_thorough=3000),
    Sub("foreign", check_foreign, strategy=foreign_strategy, nontrivial=lambda c: True, classes=lambda c: ["rewrite:" + ["null-order", "general-unit", "drop-defaults", "metadata-holes", "encoder+key-order", "extra-attributes", "hierarchy-order", "parallel-edge"][i % 8] for i in c["rewrites"]],
        n_quick=250, n_thorough=2000, sample_ok=lambda c: len(json.dumps(c)) < 3000),
    # definition-backed extension types (explicit and from-params bounds, linear and copyable arguments) nested in
    # sums, arrays and arguments: they are written as opaque types and come back as such, bound included
    Sub("ext-types", check_type, strategy=lambda tier: asts.types_x(3, 1).map(lambda t: {"t": t}), nontrivial=lambda c: '"k": "ext"' in json.dumps(c["t"]),
        classes=lambda c: [c["t"]["k"]] + (["declared-copyable-with-linear-argument"] if _copyable_with_linear_arg(c["t"]) else []), n_quick=800, n_thorough=5000),
    Sub("types", check_type, strategy=lambda tier: asts.types(3 if tier == "quick" else 4).map(lambda t: {"t": t}), nontrivial=nt_depth("t"),
        classes=lambda c: [c["t"]["k"]], n_quick=1200, n_thorough=8000),
    Sub("params_args", check_param_arg,
        strategy=lambda tier: st.one_of(asts.params(3).map(lambda p: {"p": p}), asts.args(3).map(lambda a: {"a": a})),
        nontrivial=lambda c: depth_of(c.get("p") or c.get("a")) >= 2, classes=lambda c: ["param:" + c["p"]["k"]] if "p" in c else ["arg:" + c["a"]["k"]],
        n_quick=500, n_thorough=3000),
    Sub("values", check_value, strategy=lambda tier: asts.values(2 if tier == "quick" else 3).map(lambda v: {"v": v}), nontrivial=nt_depth("v"),
        classes=lambda c: [c["v"]["k"]], n_quick=700, n_thorough=5000),
    Sub("ext-ops", check_op, strategy=lambda tier: asts.ext_ops(2).map(lambda o: {"op": o}), nontrivial=nt_op, classes=lambda c: ["via:" + c["op"]["via"]] + cls_op(c), n_quick=400, n_thorough=4000),
    Sub("ops", check_op, strategy=lambda tier: asts.op_asts(2).map(lambda o: {"op": o}), nontrivial=nt_op, classes=cls_op, n_quick=1200, n_thorough=8000),
]
