"""C02 JSON round trip of a HUGR is lossless and a fixed point."""

from __future__ import annotations

import json

from hypothesis import strategies as st

from vlib import proggen, progrun, store
from vlib.props.c01 import run_program
from vlib.props.c05 import first_diff
from vlib.runner import Fail, InvalidCase, Sub, exc_fail

PROPERTY_ID = "C02"
RULE = (
    "case = generated builder program (all roots, nesting, metadata with arbitrary JSON values, polymorphic functions, "
    "function constants, order edges) followed by a raw-API mutation history (add_node / add_const / add_link on ports "
    "the ops have / add_order_link / delete_link / delete_node of leaves); second domain: raw store histories over a "
    "pool of complete ops. Oracle: load_json(to_json(h)) must not raise; the re-serialized document equals the first "
    "as a JSON value; the observation (encoded op per node, parent, ordered children, metadata, link multiset incl. "
    "order links at offset -1) of the loaded HUGR equals the order-preserving renumbering of the original's. "
    "Non-trivial = >= 1 edge and one of: metadata, deleted node, polymorphic FuncDefn, order link, multi-linked port, "
    "function constant; distinct by canonical JSON."
)
ASSUMPTIONS = ["links only on ports their operations have (a link on offset #ports is indistinguishable on the wire from an order edge)"]


def build(case):
    flags = set(case.get("prog", {}).get("classes", []))
    if "prog" in case:
        r, fails = run_program(case["prog"])
        if r is None:
            raise InvalidCase("program does not build")
        h = r.hugr
    else:
        from hugr.hugr import Hugr

        h = Hugr(store.mk_pool_op(case["root"]))
    for s in case.get("mut", []):
        store.apply_valid_mutation(h, s, flags)
    return h, flags


def roundtrip_fails(h) -> list[Fail]:
    from hugr.hugr import Hugr

    f: list[Fail] = []
    o1 = store.obs(h)
    dead = sorted({x for (a, _, b, _) in o1[1] for x in (a, b) if x not in o1[0]} | {c for v in o1[0].values() for c in v[2] if c not in o1[0]})
    if dead:
        return [Fail("obs", "store-names-dead-nodes", f"links() / children() of the HUGR before the round trip name the dead nodes {dead[:5]}")]
    if any(len(set(v[2])) != len(v[2]) for v in o1[0].values()):
        return [Fail("obs", "store-lists-a-child-twice", f"{[v[2] for v in o1[0].values() if len(set(v[2])) != len(v[2])][:2]}")]
    try:
        pl1 = store.rename_links(store.port_links(h), o1[0])
    except Exception as e:  # noqa: BLE001
        return [exc_fail("linked_ports", e)]
    try:
        j1 = h.to_json()
    except Exception as e:  # noqa: BLE001
        return [exc_fail("to_json", e)]
    try:
        h2 = Hugr.load_json(j1)
    except Exception as e:  # noqa: BLE001
        return [exc_fail("load_json", e)]
    try:
        j2 = h2.to_json()
    except Exception as e:  # noqa: BLE001
        return [exc_fail("to_json-2", e)]
    d1, d2 = json.loads(j1), json.loads(j2)
    if d1 != d2:
        p = first_diff(d2, d1) or "?"
        kind = ""
        import re

        m = re.match(r"\$\.nodes\[\*\]", p)
        f.append(Fail("fixed-point", p, f"second document differs at {p}"))
    want = store.rename_obs(o1)
    got = store.obs(h2)
    if got[2] != want[2]:
        f.append(Fail("obs", "root", f"{got[2]} vs {want[2]}"))
    if sorted(got[0]) != sorted(want[0]):
        f.append(Fail("obs", "node-set", f"{sorted(got[0])} vs {sorted(want[0])}"))
    else:
        for i in sorted(want[0]):
            a, b = got[0][i], want[0][i]
            if a[0] != b[0]:
                f.append(Fail("obs", "op:" + json.loads(b[0])["op"], f"node {i}: {a[0][:150]} vs {b[0][:150]}"))
            if a[1] != b[1]:
                f.append(Fail("obs", "parent", f"node {i}: {a[1]} vs {b[1]}"))
            if a[2] != b[2]:
                asc = b[2] == sorted(b[2])
                f.append(Fail("obs", "child-order" if asc else "child-order:children-not-in-index-order", f"node {i}: {a[2]} vs {b[2]}"))
            if a[3] != b[3]:
                f.append(Fail("obs", "metadata", f"node {i}: {a[3]} vs {b[3]}"))
            if len(f) > 6:
                break
    if got[1] != want[1]:
        ga, wa = sorted(got[1].elements()), sorted(want[1].elements())
        only_w = [x for x in wa if x not in ga]
        what = "order-links" if only_w and all(x[1] == -1 for x in only_w) else "links"
        f.append(Fail("obs", what, f"loaded={ga[:8]} original(renamed)={wa[:8]}"[:400]))
    # the same through the per-port queries: what linked_ports answered before is what it answers after
    try:
        pl2 = store.port_links(h2)
    except Exception as e:  # noqa: BLE001
        return f + [exc_fail("linked_ports-after", e)]
    if pl2 != pl1 and got[1] == want[1]:
        ga, wa = sorted(pl2.elements()), sorted(pl1.elements())
        f.append(Fail("obs", "links-by-port", f"loaded-only={[x for x in ga if x not in wa][:4]} original-only(renamed)={[x for x in wa if x not in ga][:4]}"[:400]))
    return f[:8]


def check(case) -> list[Fail]:
    h, _ = build(case)
    return roundtrip_fails(h)


def facts(case):
    try:
        h, flags = build(case)
    except Exception:  # noqa: BLE001
        return set(), 0
    fl = set(flags)
    if any(h[n].metadata for n in h):
        fl.add("has-metadata")
    import hugr.ops as ops
    import hugr.val as val

    for n in h:
        op = h[n].op
        if isinstance(op, ops.FuncDefn) and op.params:
            fl.add("polymorphic-funcdefn")
        if isinstance(op, ops.Const) and isinstance(op.val, val.Function):
            fl.add("function-constant")
    if any(s.offset == -1 for s, _ in h.links()):
        fl.add("order-link")
    return fl, sum(1 for _ in h.links())


def nontrivial(case) -> bool:
    fl, nl = facts(case)
    return nl >= 1 and bool(fl & {"has-metadata", "delete-node", "polymorphic-funcdefn", "order-link", "multi-link", "function-constant", "explicit-order-edge", "ext-edge"})


def classes(case):
    fl, nl = facts(case)
    return sorted(x for x in fl if x in {"has-metadata", "delete-node", "polymorphic-funcdefn", "order-link", "multi-link", "function-constant", "delete-link", "add-node", "cfg", "conditional", "tail-loop"}) + (["with-mutations"] if case.get("mut") else [])


def prog_strategy(tier):
    return st.fixed_dictionaries({"prog": proggen.programs(size=12 if tier == "quick" else 24, max_depth=2 if tier == "quick" else 3), "mut": st.one_of(st.just([]), store.valid_mutations(8))})


def raw_strategy(tier):
    return st.fixed_dictionaries({"root": st.sampled_from(["module", "dfg", "custom"]), "mut": store.valid_mutations(25)})


def _has_unsorted_children(case) -> bool:
    h, _ = build(case)
    return any([c.idx for c in h.children(n)] != sorted(c.idx for c in h.children(n)) for n in h)


def reuse_strategy(tier):
    return st.fixed_dictionaries({"root": st.sampled_from(["module", "dfg", "custom"]), "mut": st.one_of(store.reuse_mutations(30 if tier == "quick" else 50), store.holes_mutations(), store.burst_mutations(), store.desc_mutations())})


def check_op_doc(case) -> list[Fail]:
    """A module holding one generated operation of any kind with any attribute values."""
    import hugr.ops as hops
    from hugr.hugr import Hugr

    from vlib.interp import mk_op

    h = Hugr(hops.Module())
    h.add_node(mk_op(case["op"]), h.root, metadata=case.get("meta"))
    return roundtrip_fails(h)


# operations whose encoding holds a field that is required and null: an unbounded nat parameter (bare, in a list
# or tuple parameter), an extension constant whose payload is null
_NAT = {"k": "nat", "max": None}
NULL_FIELD_OPS = st.one_of(
    st.sampled_from([[_NAT], [{"k": "list", "p": _NAT}], [{"k": "type", "b": "C"}, {"k": "tuple", "ps": [_NAT, {"k": "string"}]}]]).flatmap(
        lambda ps: st.sampled_from(["FuncDecl", "FuncDefn"]).map(lambda k: dict({"k": k, "name": "f", "params": ps, "i": [], "o": []}, **({"reqs": []} if k == "FuncDecl" else {})))
    ),
    st.just({"k": "Const", "v": {"k": "ext", "name": "c", "t": {"k": "opaque", "ext": "my.ext", "id": "T", "args": [], "b": "C"}, "payload": None, "exts": []}}),
)


def order_strategy(tier):
    return st.fixed_dictionaries({"root": st.sampled_from(["dfg", "custom"]), "mut": st.one_of(store.order_port_mutations(14 if tier == "quick" else 24), store.stale_order_mutations())})


REQUIRES = {"children-not-in-index-order": _has_unsorted_children}

SUBS = [
    Sub("programs", check, strategy=prog_strategy, nontrivial=nontrivial, classes=classes, n_quick=300, n_thorough=2000, sample_ok=lambda c: len(json.dumps(c)) < 3000),
    Sub("raw", check, fuzz_runs=1000, strategy=raw_strategy, nontrivial=nontrivial, classes=classes, n_quick=300, n_thorough=2000),
    Sub("ops-in-document", check_op_doc, strategy=lambda tier: st.fixed_dictionaries({"op": st.one_of(__import__("vlib.asts", fromlist=["x"]).op_asts(2), __import__("vlib.asts", fromlist=["x"]).op_asts(2), NULL_FIELD_OPS), "meta": store.META}), nontrivial=lambda c: True,
        classes=lambda c: [c["op"]["k"]], n_quick=400, n_thorough=4000),
    Sub("order-ports", check, strategy=order_strategy, nontrivial=nontrivial, classes=classes, n_quick=150, n_thorough=1000),
    Sub("index-reuse", check, fuzz_runs=1000, strategy=reuse_strategy, nontrivial=nontrivial, classes=classes, n_quick=250, n_thorough=1500),
]
