"""C04 The HUGR graph store agrees with a sequential port-multigraph model."""

from __future__ import annotations

from hypothesis import strategies as st
from hypothesis.stateful import RuleBasedStateMachine, rule

from vlib import store
from vlib.runner import Fail, InvalidCase, Sub

PROPERTY_ID = "C04"
RULE = (
    "case = history (1..40 quick / 60 thorough steps) of add_node / add_const / add_link (any offsets 0..5, repeated, "
    "fan-out and fan-in) / add_order_link / delete_link (existing and absent) / delete_node (leaf, non-root) / "
    "insert_hugr (second generated store, possibly with holes or after add/delete churn with index reuse) on one "
    "Hugr; operands are selectors modulo the live set; dense-links sub-check: few nodes, parallel and fan-in links on "
    "offsets 0..1, then deletions; churn sub-check: deep hierarchies under add/delete churn; insert-churn sub-check: hosts and inserted HUGRs after churn. Oracle = sequential model (nodes with parent/children/metadata, link multiset); after every step all "
    "queries are compared: iteration, len, lookup/KeyError, parent, children order, links() multiset, linked_ports "
    "from both ends, incoming/outgoing link and order-link listings, has_link, port counts >= max(requested, highest "
    "offset in use + 1); returned indices are never live. Non-trivial = history with a deletion on a multi-linked "
    "port, an index reuse, an order link removed with its node, or an insert, followed by >= 1 comparison; "
    "distinct by canonical JSON."
)
ASSUMPTIONS = [
    "only leaf, non-root nodes are deleted; inserted HUGRs satisfy insert_hugr's documented parent-before-child precondition",
    "num_incoming / num_outgoing (they count ports, not links) are not among the statement's queries",
]


def check(case) -> list[Fail]:
    from hugr.hugr import Hugr

    try:
        h = Hugr(store.mk_pool_op(case["root"]))
        m = store.Model(case["root"])
    except (KeyError, TypeError) as e:
        raise InvalidCase from e
    handles = {0: h.root}
    fails = store.compare(h, m, handles)
    for i, s in enumerate(case["steps"]):
        fs = store.apply_step(h, m, s, handles) + store.compare(h, m, handles)
        if fs:
            # locus carries the kind of the last mutating step and structural predicates
            return [Fail(f.clause, f"{f.locus}|after:{s[0]}", f.msg) for f in fs[:6]]
    return fails


def flags_of(case) -> set:
    from hugr.hugr import Hugr

    h = Hugr(store.mk_pool_op(case["root"]))
    m = store.Model(case["root"])
    handles = {0: h.root}
    for s in case["steps"]:
        try:
            store.apply_step(h, m, s, handles)
        except Exception:  # noqa: BLE001
            break
    return set(m.flags)


_cache: dict = {}


def _flags(case):
    from vlib.runner import chash

    key = chash(case)
    if key not in _cache:
        _cache.clear()
        _cache[key] = flags_of(case)
    return _cache[key]


def nontrivial(case) -> bool:
    return bool(_flags(case) & {"delete-on-multi-port", "index-reuse", "delete-node-with-order-link", "insert"})


def classes(case):
    return sorted(_flags(case))


def make_machine(feed):
    class StoreMachine(RuleBasedStateMachine):
        def __init__(self):
            super().__init__()
            self.steps = []
            self.root = "module"

        @rule(s=store.step_strategy(True))
        def step(self, s):
            self.steps.append(s)

        def teardown(self):
            if self.steps:
                feed({"root": self.root, "steps": self.steps})

    return StoreMachine


SUBS = [
    Sub("history", check, fuzz_runs=5000, strategy=lambda tier: store.history_strategy(40 if tier == "quick" else 60), nontrivial=nontrivial, classes=classes, n_quick=400, n_thorough=2500),
    Sub("dense-links", check, fuzz_runs=4000, strategy=lambda tier: store.dense_history_strategy(25 if tier == "quick" else 40), nontrivial=nontrivial, classes=classes, n_quick=300, n_thorough=2000),
    Sub("churn", check, fuzz_runs=3000, strategy=lambda tier: store.churn_strategy(30 if tier == "quick" else 50), nontrivial=nontrivial, classes=classes, n_quick=250, n_thorough=2000),
    Sub("insert-churn", check, fuzz_runs=3000, strategy=lambda tier: store.insert_churn_strategy(12 if tier == "quick" else 20), nontrivial=nontrivial, classes=classes, n_quick=150, n_thorough=1000),
    Sub("machine", check, machine=make_machine, nontrivial=nontrivial, classes=classes, n_quick=100, n_thorough=600),
]
