"""C06 Operation signatures and port kinds follow the specification's typing rules."""

from __future__ import annotations

import json

from hypothesis import strategies as st

from vlib import asts, ref
from vlib.interp import mk_op
from vlib.runner import Fail, InvalidCase, Sub

PROPERTY_ID = "C06"
RULE = (
    "case = op AST over generated type rows (empty rows, linear types, polymorphic Call/LoadFunc with row-variable "
    "instantiations of different arity); oracle = reference signature algebra ref_sig (specification + "
    "dataflow.rs/controlflow.rs): outer/inner signature, num_out, port_kind and port_type for every offset incl. the "
    "order port, static port right after the value inputs, nth_inputs/nth_outputs, Hugr.port_type == payload of "
    "Hugr.port_kind. Non-trivial = op with a non-empty row (Call/LoadFunc: polymorphic); distinct by canonical JSON."
)
ASSUMPTIONS = ["runtime_reqs of derived signatures are not compared (being removed from the specification)", "offsets beyond the op's ports are not asserted"]


def dump(m):
    return json.loads(m.model_dump_json())


def enc_kind(kd):
    import hugr.tys as tys

    if isinstance(kd, tys.ValueKind):
        return ["Value", dump(kd.ty._to_serial_root())]
    if isinstance(kd, tys.ConstKind):
        return ["Const", dump(kd.ty._to_serial_root())]
    if isinstance(kd, tys.FunctionKind):
        d = dump(kd.ty._to_serial())
        d["body"].pop("runtime_reqs", None)
        return ["Function", d]
    if isinstance(kd, tys.OrderKind):
        return ["Order"]
    if isinstance(kd, tys.CFKind):
        return ["CF"]
    return ["?", repr(kd)]


def want_static(st):
    kind, payload = st
    if kind == "const":
        return ["Const", ref.enc_type(payload)]
    params, i, o, reqs = payload
    d = ref.enc_poly(params, {"i": i, "o": o, "reqs": reqs})
    d["body"].pop("runtime_reqs", None)
    return ["Function", d]


def sig_io(m):
    d = dump(m._to_serial_root())
    return d["input"], d["output"]


def check(case, obj=None) -> list[Fail]:
    from hugr.hugr import Hugr
    from hugr.hugr.node_port import InPort, Node, OutPort

    op = case["op"]
    k = op["k"]
    x = mk_op(op) if obj is None else obj
    s = ref.ref_sig(op)
    fails: list[Fail] = []
    n = Node(5)

    def kind_of(port):
        try:
            return enc_kind(x.port_kind(port))
        except Exception as e:  # noqa: BLE001
            return f"raises {type(e).__name__}"

    def expect(port, want, what):
        got = kind_of(port)
        if got != want:
            fails.append(Fail("port_kind", f"{k}:{what}", f"{port!r}: got={got} want={want}"[:300]))

    ins, outs = s["ins"], s["outs"]
    if ins is not None:
        if hasattr(x, "outer_signature"):
            gi, go = sig_io(x.outer_signature())
            if gi != ref.enc_row(ins) or go != ref.enc_row(outs):
                fails.append(Fail("outer_signature", k, f"got={gi}->{go} want={ref.enc_row(ins)}->{ref.enc_row(outs)}"[:300]))
        for i, t in enumerate(ins):
            expect(InPort(n, i), ["Value", ref.enc_type(t)], "value-in")
        for i, t in enumerate(outs):
            expect(OutPort(n, i), ["Value", ref.enc_type(t)], "value-out")
        if s["order_in"]:
            expect(InPort(n, -1), ["Order"], "order-in")
        if s["order_out"]:
            expect(OutPort(n, -1), ["Order"], "order-out")
        if hasattr(x, "port_type"):
            for i, t in enumerate(ins):
                try:
                    got = dump(x.port_type(InPort(n, i))._to_serial_root())
                except Exception as e:  # noqa: BLE001
                    got = f"raises {type(e).__name__}"
                if got != ref.enc_type(t):
                    fails.append(Fail("port_type", f"{k}:in", f"offset {i}: {got}"[:200]))
            for i, t in enumerate(outs):
                try:
                    got = dump(x.port_type(OutPort(n, i))._to_serial_root())
                except Exception as e:  # noqa: BLE001
                    got = f"raises {type(e).__name__}"
                if got != ref.enc_type(t):
                    fails.append(Fail("port_type", f"{k}:out", f"offset {i}: {got}"[:200]))
    if ins is not None and hasattr(x, "port_type"):
        for P, has, what in ((InPort, s["order_in"], "order-in"), (OutPort, s["order_out"], "order-out")):
            if not has:
                continue
            try:
                t = x.port_type(P(n, -1))
            except Exception:  # noqa: BLE001
                t = None
            if t is not None:
                fails.append(Fail("port_type", f"{k}:{what}-has-a-type", f"order port reported type {t!r}"[:200]))
    if s["static_in"] is not None:
        expect(InPort(n, len(ins)), want_static(s["static_in"]), "static-in")
    if s["static_out"] is not None:
        expect(OutPort(n, 0), want_static(s["static_out"]), "static-out")
    for i in range(s["cf_in"]):
        expect(InPort(n, i), ["CF"], "cf-in")
    for i in range(s["cf_out"]):
        expect(OutPort(n, i), ["CF"], "cf-out")
    want_n = (len(outs) if outs is not None else 0) + (1 if s["static_out"] else 0) + s["cf_out"]
    try:
        got_n = x.num_out
    except Exception as e:  # noqa: BLE001
        got_n = f"raises {type(e).__name__}"
    if got_n != want_n:
        fails.append(Fail("num_out", k, f"got={got_n} want={want_n}"))
    if k == "DFG":
        # "a DFG's outer signature equals its body's": the whole function type, extension delta included
        eo, ei = json.loads(x.outer_signature()._to_serial_root().model_dump_json()), json.loads(x.inner_signature()._to_serial_root().model_dump_json())
        if eo != ei:
            fails.append(Fail("inner_signature", "DFG:differs-from-outer", f"outer={eo} inner={ei}"[:300]))
    if s["inner"] is not None:
        gi, go = sig_io(x.inner_signature())
        wi, wo = ref.enc_row(s["inner"][0]), ref.enc_row(s["inner"][1])
        if (gi, go) != (wi, wo):
            fails.append(Fail("inner_signature", k, f"got={gi}->{go} want={wi}->{wo}"[:300]))
    if s["nth"] is not None:
        f = x.nth_inputs if k == "Conditional" else x.nth_outputs
        for i, row in enumerate(s["nth"]):
            got = [dump(t._to_serial_root()) for t in f(i)]
            if got != ref.enc_row(row):
                fails.append(Fail("nth-row", k, f"i={i} got={got} want={ref.enc_row(row)}"[:300]))
    if k == "Const":
        # constants come and go: the kind of a Const's port is that of the value it holds now, whatever values
        # lived (at the same address) before
        import hugr.ops as hops2
        import hugr.tys as htys
        import hugr.val as hval
        from hugr.std.float import FloatVal
        from hugr.std.int import IntVal

        makers = [lambda: hval.Tuple(hval.TRUE), lambda: IntVal(3, 2), lambda: FloatVal(0.5), lambda: hval.Some(hval.TRUE), lambda: IntVal(1, 5), lambda: hval.None_(htys.Bool), lambda: hval.Tuple(), lambda: hval.Left([hval.TRUE], [htys.Unit])]
        for j_ in range(32):
            vj = makers[(j_ * 3) % len(makers)]()  # a fresh value object every time; the previous one is gone
            cj = hops2.Const(vj)
            kj = cj.port_kind(OutPort(n, 0))
            if not isinstance(kj, htys.ConstKind) or dump(kj.ty._to_serial_root()) != dump(vj.type_()._to_serial_root()):
                fails.append(Fail("port_kind", "Const:kind-of-an-earlier-constant", f"Const({vj!r}) offers {kj!r}"[:300]))
                break
            del cj, vj
    # graph-level: the HUGR reports for a port what the node's operation reports (every operation kind, every
    # offset including the order port: e.g. no order port on a definition, a constant, a case or a block)
    if k != "Module":
        import hugr.ops as hops

        hm = Hugr(hops.Module())
        ndm = hm.add_node(x, hm.root)
        for off in range(-1, 5):
            for P in (InPort, OutPort):
                try:
                    a = enc_kind(x.port_kind(P(ndm, off)))
                except Exception as e:  # noqa: BLE001
                    a = f"raises {type(e).__name__}"
                try:
                    b = enc_kind(hm.port_kind(P(ndm, off)))
                except Exception as e:  # noqa: BLE001
                    b = f"raises {type(e).__name__}"
                if a != b:
                    fails.append(Fail("hugr.port_kind", f"{k}:differs-from-the-operation's:{'order' if off == -1 else 'value'}-{'in' if P is InPort else 'out'}", f"offset {off}: operation says {a}, HUGR says {b}"[:300]))
                    break
    # graph-level: type reported for a value output port == payload of that port's kind
    if outs is not None and k not in ("Module",):
        import hugr.ops as ops
        import hugr.tys as tys

        h = Hugr(ops.DFG([], []))
        nd = h.add_node(x, h.root)
        for i, t in enumerate(outs):
            p = OutPort(nd, i)
            try:
                kd = h.port_kind(p)
                ty = h.port_type(p)
                ok = isinstance(kd, tys.ValueKind) and ty is not None and dump(ty._to_serial_root()) == dump(kd.ty._to_serial_root()) == ref.enc_type(t)
                msg = f"kind={kd!r} type={ty!r}"
            except Exception as e:  # noqa: BLE001
                ok, msg = False, f"raises {type(e).__name__}: {e}"
            if not ok:
                fails.append(Fail("hugr.port_type", k, f"out {i}: {msg}"[:300]))
        for i, t in enumerate(ins):
            p = InPort(nd, i)
            try:
                kd = h.port_kind(p)
                ok = isinstance(kd, tys.ValueKind) and dump(kd.ty._to_serial_root()) == ref.enc_type(t)
                msg = f"kind={kd!r}"
            except Exception as e:  # noqa: BLE001
                ok, msg = False, f"raises {type(e).__name__}: {e}"
            if not ok:
                fails.append(Fail("hugr.port_kind", k, f"in {i}: {msg}"[:300]))
    if obj is None and k in ("Call", "LoadFunc") and not op["params"]:
        # a function without type parameters has one instantiation, its body, whatever the caller says it is
        import hugr.ops as hops
        import hugr.tys as htys
        from vlib.interp import mk_poly, mk_row

        cls_ = hops.Call if k == "Call" else hops.LoadFunc
        other = htys.FunctionType([htys.Bool, *mk_row(op["o"])], mk_row(op["i"]))
        try:
            alt = cls_(mk_poly(op), other, [])
        except Exception as e:  # noqa: BLE001
            fails.append(Fail("construct", f"{k}:monomorphic-with-stated-instantiation", f"{type(e).__name__}: {e}"[:200]))
        else:
            fails += [Fail(f.clause, f.locus + "|monomorphic-with-stated-instantiation", f.msg) for f in check(case, obj=alt)]
    return fails


PARTIAL = ("Noop", "MakeTuple", "UnpackTuple", "CallIndirect")


def check_reused(case) -> list[Fail]:
    """An operation object that is completed from its input wires, given to the builder a second time for
    wires of other types: what it then reports (signatures, kinds, types, output count) is what the
    specification assigns to the operation it now is."""
    import hugr.tys as tys
    from hugr.build.dfg import Dfg

    from vlib.interp import mk_row
    from vlib.progrun import partial_op

    op = case["op"]
    k = op["k"]
    s = ref.ref_sig(op)
    U = {"k": "unit"}
    other = {"Noop": [U], "MakeTuple": [U], "UnpackTuple": [{"k": "tuple", "ts": [U]}], "CallIndirect": [{"k": "fn", "i": [], "o": [U], "reqs": []}]}[k]
    actual = s["ins"]
    if k == "UnpackTuple" and case.get("sum_spelling"):
        # the tuple written as a plain one-variant sum (what a decoded document or a Tag produces)
        actual = [{"k": "sum", "rows": [list(op["ts"])]}]
    d = Dfg(*mk_row(other), *mk_row(actual))
    ws = d.inputs()
    p = partial_op(op)
    d.add_op(p, *ws[: len(other)])
    try:
        p.outer_signature()
        p.num_out  # noqa: B018
    except Exception:  # noqa: BLE001
        pass
    d.add_op(p, *ws[len(other):])
    fs = check(case, obj=p)
    if fs:
        return [Fail("reused-operation-object", f"{k}:reports-an-earlier-use", f"{fs[0].clause}/{fs[0].locus}: {fs[0].msg}"[:300])]
    return []


def reused_strategy(tier):
    return st.tuples(asts.op_asts(2, kinds=list(PARTIAL)), st.booleans()).map(lambda t: {"op": t[0], "sum_spelling": t[1]})


def _is_reuse(case) -> bool:
    return True


REQUIRES = {"reused-operation-object": _is_reuse}


def check_replaced(case) -> list[Fail]:
    """The types a HUGR reports for the ports of a node are those of the operation the node holds now: an
    operation is added and asked about its ports, deleted, and another one lands on the same index."""
    import hugr.ops as hops
    import hugr.tys as tys
    from hugr.hugr import Hugr
    from hugr.hugr.node_port import InPort, OutPort

    h = Hugr(hops.DFG([], []))
    idxs = []
    for op in (case["op1"], case["op2"]):
        s_ = ref.ref_sig(op)
        nd = h.add_node(mk_op(op), h.root)
        idxs.append(nd.idx)
        fails = []
        for P, row, what in ((OutPort, s_["outs"] or [], "out"), (InPort, s_["ins"] or [], "in")):
            for i, t in enumerate(row):
                try:
                    ty = h.port_type(P(nd, i))
                    kd = h.port_kind(P(nd, i))
                    # (for input ports of operations that are not DataflowOps no type is reported: only outputs must have one)
                    ok = isinstance(kd, tys.ValueKind) and dump(kd.ty._to_serial_root()) == ref.enc_type(t) and ((ty is None and P is InPort) or (ty is not None and dump(ty._to_serial_root()) == ref.enc_type(t)))
                    msg = f"type={ty!r} kind={kd!r}"
                except Exception as e:  # noqa: BLE001
                    ok, msg = False, f"raises {type(e).__name__}: {e}"
                if not ok:
                    fails.append(Fail("hugr.port_type", f"after-replacement:{op['k']}:{what}", f"{what} {i}: {msg}"[:300]))
        if op is case["op1"]:
            if fails:
                return fails  # already wrong for a fresh node: the other sub-checks' business
            h.delete_node(nd)
    if idxs[0] != idxs[1]:
        raise InvalidCase("index not reused")
    return fails[:4]


def check_declared(case) -> list[Fail]:
    """A function with declared outputs keeps reporting them (signature of the definition, kind of its
    function port, instantiation of a recursive call) when set_outputs is refused for other wires."""
    import hugr.tys as tys
    from hugr.build.dfg import Function
    from hugr.hugr.node_port import OutPort

    from vlib.interp import mk_row

    ins, decl = case["ins"], case["decl"]
    if ref.enc_row(ins) == ref.enc_row(decl):
        raise InvalidCase("the inputs would be accepted as outputs")
    f = Function("f", mk_row(ins))
    f.declare_outputs(mk_row(decl))
    call = f.call(f.parent_node, *f.inputs()) if case["call"] and not any(ref.ref_bound(t) != "C" for t in ins) else None
    try:
        f.set_outputs(*f.inputs())
        return []  # accepting is C13's business
    except ValueError:
        pass
    want = ref.enc_row(decl)
    fails = []
    got = sig_io(f.parent_op.inner_signature())[1]
    if got != want:
        fails.append(Fail("inner_signature", "FuncDefn:after-refused-outputs", f"got={got} declared={want}"[:300]))
    kd = f.hugr.port_kind(OutPort(f.parent_node, 0))
    if not isinstance(kd, tys.FunctionKind) or sig_io(kd.ty.body)[1] != want:
        fails.append(Fail("port_kind", "FuncDefn:function-port-after-refused-outputs", f"{kd!r}"[:300]))
    if call is not None:
        cop = f.hugr[call].op
        if sig_io(cop.instantiation)[1] != want or sig_io(cop.signature.body)[1] != sig_io(f.parent_op.signature.body)[1]:
            fails.append(Fail("outer_signature", "Call:callee-changed-after-refused-outputs", f"call {sig_io(cop.instantiation)[1]} callee {sig_io(f.parent_op.signature.body)[1]}"[:300]))
    return fails


def check_outputs_again(case) -> list[Fail]:
    """A DFG whose outputs are set a second time (first the empty row or a provisional row given with the
    operation, then the final wires): its outer and inner signature, output count and the body's Output node
    all carry the final row."""
    import hugr.ops as hops
    from hugr.build.dfg import Dfg
    from hugr.hugr import Hugr

    from vlib.interp import mk_row

    ins = case["ins"]
    copy_ok = [i for i, t in enumerate(ins) if ref.ref_bound(t) == "C"]
    if case["via"] == "new_nested":
        host = Hugr(hops.Module())
        d = Dfg.new_nested(hops.DFG(mk_row(ins), mk_row(case["provisional"])), host)
    else:
        d = Dfg(*mk_row(ins))
        first = [i % len(copy_ok) for i in case["first"]] if copy_ok else []
        d.set_outputs(*[d.inputs()[copy_ok[i]] for i in first])
    second = [i % len(ins) for i in case["second"]] if ins else []
    d.set_outputs(*[d.inputs()[i] for i in second])
    want = ref.enc_row([ins[i] for i in second])
    fails = []
    for what, get in (("outer_signature", lambda: sig_io(d.parent_op.outer_signature())[1]), ("inner_signature", lambda: sig_io(d.parent_op.inner_signature())[1]),
                      ("Output.types", lambda: [dump(t._to_serial_root()) for t in d.hugr[d.output_node].op.types]), ("num_out", lambda: d.parent_op.num_out)):
        try:
            got = get()
        except Exception as e:  # noqa: BLE001
            got = f"raises {type(e).__name__}"
        w = len(want) if what == "num_out" else want
        if got != w:
            fails.append(Fail(what, "DFG:outputs-set-again:" + case["via"], f"got={got} final row={w}"[:300]))
    return fails


def arity_changes(op) -> bool:
    if op["k"] not in ("Call", "LoadFunc") or not op["params"]:
        return False
    i, o, _ = ref.call_inst(op)
    return len(i) != len(op["i"]) or len(o) != len(op["o"])


def nontrivial(case) -> bool:
    op = case["op"]
    if op["k"] in ("Call", "LoadFunc"):
        return bool(op["params"])
    s = ref.ref_sig(op)
    rows = [s["ins"] or [], s["outs"] or []] + (list(s["inner"]) if s["inner"] else [])
    return any(len(r) > 0 for r in rows)


def classes(case):
    op = case["op"]
    out = [op["k"]]
    if arity_changes(op):
        out.append("arity-changing-instantiation")
    s = ref.ref_sig(op)
    if s["ins"] is not None and not s["ins"] and not s["outs"]:
        out.append("empty-rows")
    return out


SUBS = [
    Sub("dfg-outputs-set-again", check_outputs_again, strategy=lambda tier: st.fixed_dictionaries({"ins": st.lists(asts.types(1), max_size=3), "via": st.sampled_from(["set_outputs", "new_nested"]), "provisional": st.lists(asts.types(1), max_size=2),
                                                                                                  "first": st.lists(st.integers(0, 5), max_size=2), "second": st.lists(st.integers(0, 5), max_size=3)}),
        nontrivial=lambda c: bool(c["ins"]) and bool(c["second"]), classes=lambda c: [c["via"]], n_quick=200, n_thorough=1500),
    Sub("replaced-nodes", check_replaced, strategy=lambda tier: st.tuples(asts.op_asts(2, kinds=["Custom", "Tag", "MakeTuple", "UnpackTuple", "Noop", "LoadConst", "Call", "DivMod", "Not"]), asts.op_asts(2, kinds=["Custom", "Tag", "MakeTuple", "UnpackTuple", "Noop", "LoadConst", "Call", "DivMod", "Not"])).map(lambda t: {"op1": t[0], "op2": t[1]}),
        nontrivial=lambda c: c["op1"] != c["op2"], classes=lambda c: [c["op2"]["k"]], n_quick=200, n_thorough=1500),
    Sub("declared-functions", check_declared, strategy=lambda tier: st.fixed_dictionaries({"ins": st.lists(asts.types(1), max_size=3), "decl": st.lists(asts.types(1), max_size=3), "call": st.booleans()}),
        nontrivial=lambda c: bool(c["decl"]), classes=lambda c: ["recursive-call"] if c["call"] else ["no-call"], n_quick=200, n_thorough=1500),
    Sub("reused-partial-ops", check_reused, strategy=reused_strategy, nontrivial=lambda c: True, classes=lambda c: [c["op"]["k"]], n_quick=200, n_thorough=1500),
    Sub("rowpoly", check, strategy=lambda tier: asts.rowpoly_calls(2).map(lambda o: {"op": o}), nontrivial=nontrivial, classes=classes, n_quick=500, n_thorough=3000),
    Sub("ops", check, fuzz_runs=2000, strategy=lambda tier: asts.op_asts(2 if tier == "quick" else 3).map(lambda o: {"op": o}), nontrivial=nontrivial, classes=classes, n_quick=1500, n_thorough=8000),
    Sub(
        "calls",
        check,
        strategy=lambda tier: asts.op_asts(2, kinds=["Call", "LoadFunc", "CallIndirect", "LoadConst", "Conditional", "TailLoop", "DataflowBlock"]).map(lambda o: {"op": o}),
        nontrivial=nontrivial,
        classes=classes,
        n_quick=800,
        n_thorough=5000,
    ),
]
