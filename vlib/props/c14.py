"""C14 Constants inhabit the type they report."""

from __future__ import annotations

import json

from hypothesis import strategies as st

from vlib import asts, ref, refconst
from vlib.asts import depth_of, rows_of
from vlib.interp import mk_type, mk_value
from vlib.runner import Fail, Sub

PROPERTY_ID = "C14"
RULE = (
    "case = value AST to depth 3 (quick) / 5 (thorough): general sums, sugar helpers, std extension constants (int "
    "widths 0..6, float, string, arrays/lists/static arrays of any valued element type, nested), opaque extension "
    "values and function constants. Oracle: (a) reported type == reference typing of the AST; (b) the serialized "
    "value passes the reference constant validator over JSON (tag in range, field count and field types equal the "
    "variant row after reader normalisation, std constants carry matching type / defining extension / complete "
    "element values + element type, array size == #elements); (c) helper constructors give the right tag/sum type; "
    "(d) Const(v) offers ConstKind(type) on its static port and the LoadConst built by DfBase.load outputs it, also "
    "when the constant is loaded after another constant and its load were deleted (node indices reused); the list passed "
    "to Left / Right stays the caller's. "
    "Non-trivial = nesting depth >= 2 or a collection constant; distinct by canonical JSON."
)
ASSUMPTIONS = ["integer constants are within the range of their width (unsigned)", "no constants of linear / variable / alias types (no such values exist)"]


def dump(m):
    return json.loads(m.model_dump_json())


def check(case) -> list[Fail]:
    import hugr.ops as ops
    import hugr.tys as tys
    import hugr.val as val
    from hugr.build.dfg import Dfg
    from hugr.hugr.node_port import InPort, OutPort

    v = case["v"]
    k = v["k"]
    x = mk_value(v)
    fails: list[Fail] = []
    want_t = ref.enc_type(ref.ref_typeof(v))
    got_t = dump(x.type_()._to_serial_root())
    if got_t != want_t:
        fails.append(Fail("type_", k, f"got={got_t} want={want_t}"[:300]))
    e = dump(x._to_serial_root())
    ct = refconst.const_type(e)
    if ct is None or ref.norm_enc(ct) != ref.norm_enc(got_t):
        fails.append(Fail("serialized-type", k, f"serialized form claims {ct}, type_() is {got_t}"[:300]))
    for clause, msg in refconst.check_const(e):
        fails.append(Fail("inhabits:" + clause, k, msg[:300]))
    # helper constructors: tag and sum type
    if isinstance(x, val.Sum):
        rs = rows_of(ref.ref_typeof(v))
        if x.tag != ref.ref_tag(v) or [[dump(t._to_serial_root()) for t in r] for r in x.typ.variant_rows] != [ref.enc_row(r) for r in rs]:
            fails.append(Fail("helper", k, f"tag={x.tag} typ={x.typ!r}"[:300]))
        if not (0 <= x.tag < x.n_variants):
            fails.append(Fail("helper", k + ":tag-range", f"tag {x.tag} of {x.n_variants}"))
    # Const node / LoadConst
    c = ops.Const(x)
    kd = c.port_kind(OutPort(__import__("hugr").hugr.Node(0), 0))
    if not isinstance(kd, tys.ConstKind) or dump(kd.ty._to_serial_root()) != want_t:
        fails.append(Fail("const-port", k, f"{kd!r}"[:200]))
    d = Dfg()
    ld = d.load(x)
    lop = d.hugr[ld].op
    cn = [n for n, dta in d.hugr.nodes() if isinstance(dta.op, ops.Const)]
    ok = (
        isinstance(lop, ops.LoadConst)
        and dump(lop.type_._to_serial_root()) == want_t
        and dump(lop.outer_signature()._to_serial_root())["output"] == [want_t]
        and len(cn) == 1
        and list(d.hugr.linked_ports(InPort(ld, 0))) == [OutPort(cn[0], 0)]
        and dump(d.hugr.port_type(ld.out(0))._to_serial_root()) == want_t
        and list(ld) == [OutPort(ld, 0)]
    )
    if not ok:
        fails.append(Fail("load", k, f"LoadConst {lop!r} for constant of type {want_t}"[:300]))
    # the same value built with one-shot iterables where the API takes Iterable[...]
    from vlib import interp

    interp.ONE_SHOT[0] = True
    try:
        x2 = mk_value(v)
    finally:
        interp.ONE_SHOT[0] = False
    if dump(x2._to_serial_root()) != e or dump(x2.type_()._to_serial_root()) != got_t:
        fails.append(Fail("iterable-arguments", k, "value built from one-shot iterables differs from the one built from lists"))
    # one value object given twice as a field counts twice
    if k in ("tuple", "some", "left", "right") and v.get("vs"):
        x0 = mk_value(v["vs"][0])
        t0 = dump(x0.type_()._to_serial_root())
        y2 = {"tuple": lambda: val.Tuple(x0, x0), "some": lambda: val.Some(x0, x0), "left": lambda: val.Left([x0, x0], []), "right": lambda: val.Right([], [x0, x0])}[k]()
        rows2 = [[dump(t._to_serial_root()) for t in r] for r in y2.type_().variant_rows]
        if rows2[y2.tag] != [t0, t0] or len(y2.vals) != 2:
            fails.append(Fail("helper", k + ":same-object-twice", f"variant row {rows2[y2.tag]} for two fields of type {t0}"[:300]))
    # a function value whose body is finished only later: loading it too early fails and changes nothing
    if k == "function" and not v.get("reqs"):
        from hugr.ops import IncompleteOp

        body = Dfg(*[mk_type(t) for t in v["i"]])
        d3 = Dfg()
        cnode = d3.add_const(val.Function(body.hugr))
        try:
            d3.load(cnode)
            early = None
        except IncompleteOp as e:
            early = e
        except Exception as e:  # noqa: BLE001
            early = e
            fails.append(Fail("load", "function:unfinished-body-wrong-error", f"{type(e).__name__}"))
        inner = body.add_op(ops.Custom("body", tys.FunctionType([mk_type(t) for t in v["i"]], [mk_type(t) for t in v["o"]]), extension="gen.ext"), *body.inputs())
        body.set_outputs(*inner.outputs())
        d3.load(val.TRUE)
        try:
            l3 = d3.load(cnode)
            got3 = dump(d3.hugr[l3].op.type_._to_serial_root())
            if got3 != want_t or not isinstance(d3.hugr[cnode].op, ops.Const):
                fails.append(Fail("load", "function:after-an-early-attempt", f"LoadConst of {got3} for a constant of type {want_t}"[:300]))
        except Exception as e:  # noqa: BLE001
            fails.append(Fail("load", "function:constant-lost-after-an-early-attempt", f"{type(e).__name__}: {e}"[:200]))
    # a function value built from a definition with declared outputs, after a refused set_outputs: the constant is
    # either not yet a value (body unfinished) or its body returns what the constant's type says
    if k == "function" and not v.get("reqs") and [ref.enc_type(t) for t in v["i"]] != [ref.enc_type(t) for t in v["o"]]:
        from hugr.build.dfg import Function
        from hugr.ops import IncompleteOp

        fb = Function("f", [mk_type(t) for t in v["i"]])
        fb.declare_outputs([mk_type(t) for t in v["o"]])
        try:
            fb.set_outputs(*fb.inputs())
            refused = False
        except ValueError:
            refused = True
        if refused:  # (an acceptance is C13's business)
            fc = val.Function(fb.hugr)
            d4 = Dfg()
            try:
                d4.set_outputs(d4.load(fc))
                doc = json.loads(d4.hugr.to_json())
            except IncompleteOp:
                doc = None
            except Exception as e:  # noqa: BLE001
                doc = None
                fails.append(Fail("load", "function:after-refused-outputs-wrong-error", f"{type(e).__name__}: {e}"[:200]))
            if doc is not None:
                cn = next(n for n in doc["nodes"] if n["op"] == "Const")
                bd = cn["v"]["hugr"]
                if isinstance(bd, str):
                    bd = json.loads(bd)
                outs_ = next(n for n in bd["nodes"] if n["op"] == "Output")["types"]
                sig_ = bd["nodes"][0]["signature"]["body"]["output"]
                ld = next(n for n in doc["nodes"] if n["op"] == "LoadConstant")["datatype"]["output"]
                if not (outs_ == sig_ == ld):
                    fails.append(Fail("function-body", "after-refused-outputs", f"body returns {outs_}, definition says {sig_}, loaded as {ld}"[:300]))
    # Left / Right compute their type from the values given: the list the caller passed stays the caller's
    if k in ("left", "right"):
        mine = [mk_value(u) for u in v["vs"]]
        y = val.Left(mine, [mk_type(t) for t in v["r"]]) if k == "left" else val.Right([mk_type(t) for t in v["l"]], mine)
        mine.append(val.TRUE)
        ey = dump(y._to_serial_root())
        if ey != e:
            fails.append(Fail("argument-list-aliased", k, "appending to the list that was passed to the constructor changed the constant"))
    # a constant loaded after another one was deleted (its node index is free again) is typed by itself
    if "v0" in case:
        d2 = Dfg()
        l0 = d2.load(mk_value(case["v0"]))
        c0 = [n for n, dta in d2.hugr.nodes() if isinstance(dta.op, ops.Const)]
        d2.hugr.delete_node(l0)
        for n in c0:
            d2.hugr.delete_node(n)
        l1 = d2.load(mk_value(v))
        lop1 = d2.hugr[l1].op
        c1 = [n for n, dta in d2.hugr.nodes() if isinstance(dta.op, ops.Const)]
        if not (isinstance(lop1, ops.LoadConst) and dump(lop1.type_._to_serial_root()) == want_t and len(c1) == 1 and dump(d2.hugr.port_type(l1.out(0))._to_serial_root()) == want_t):
            fails.append(Fail("load", k + ":after-deleted-constant", f"LoadConst {lop1!r} for constant of type {want_t}"[:300]))
    # std constants are plain (non-frozen) dataclasses: fields assigned after construction count
    if k in ("int", "float", "string"):
        from hugr.std.float import FloatVal
        from hugr.std.int import IntVal
        from hugr.std.prelude import StringVal

        if k == "int":
            y = IntVal(0, (v["w"] + 3) % 7)
            y.v, y.width = v["v"], v["w"]
        elif k == "float":
            y = FloatVal(1.25)
            y.v = v["v"]
        else:
            y = StringVal("other")
            y.v = v["s"]
        if dump(y._to_serial_root()) != e or dump(y.type_()._to_serial_root()) != got_t:
            fails.append(Fail("field-assignment", k, f"constant re-assigned to {v} reports {dump(y.type_()._to_serial_root())} / {dump(y._to_serial_root())}"[:300]))
    return fails


def is_collection(v) -> bool:
    return '"k": "array"' in json.dumps(v) or '"k": "list"' in json.dumps(v) or '"k": "sarray"' in json.dumps(v)


SUBS = [
    Sub("values-after-churn", check, strategy=lambda tier: st.tuples(asts.values(2), asts.values(1)).map(lambda t: {"v": t[0], "v0": t[1]}),
        nontrivial=lambda c: ref.enc_type(ref.ref_typeof(c["v"])) != ref.enc_type(ref.ref_typeof(c["v0"])), classes=lambda c: [c["v"]["k"]], n_quick=300, n_thorough=3000),
    Sub("values", check, fuzz_runs=2000, strategy=lambda tier: asts.values(3 if tier == "quick" else 4).map(lambda v: {"v": v}),
        nontrivial=lambda c: depth_of(c["v"]) >= 2 or is_collection(c["v"]), classes=lambda c: [c["v"]["k"]] + (["collection"] if is_collection(c["v"]) else []) + ([f"depth{min(depth_of(c['v']), 5)}"]),
        n_quick=2000, n_thorough=12000),
]
