"""C15 Index-based (tracked) wiring is equivalent to explicit wiring."""

from __future__ import annotations

import json

from hypothesis import strategies as st

from vlib import store
from vlib.asts import weighted
from vlib.runner import Fail, InvalidCase, Sub

PROPERTY_ID = "C15"
RULE = (
    "case = history over a TrackedDfg of width 0..6 (mixed copyable/linear inputs): track_inputs / track_wire / "
    "track_wires / untrack_wire / add (mixed integer and wire arguments, optional metadata; ops with as many, more or "
    "fewer outputs than inputs; also the same command object added again) / extend, ended by "
    "set_indexed_outputs or set_tracked_outputs; operands are selectors modulo the tracked indices / known wires. "
    "Oracle: the harness keeps the statement's reference table index -> wire and drives a plain Dfg with explicit "
    "wires in parallel; after every step `tracked` equals the table, at the end both HUGRs are equal node for node, "
    "link for link (same indices, metadata) and serialize to the same JSON; a step refused by one builder must be "
    "refused with the same error by the other (ends the history). Non-trivial = an add mixing an integer "
    "and a wire argument after an untrack; distinct by canonical JSON."
)
ASSUMPTIONS = [
    "an integer argument at a position >= the op's output count is rebound to the (non-existent) output at that position, as the "
    "statement says; using such an index later must behave exactly like passing that port explicitly (same HUGR or the same error)"
]

OPS = {"noop": (1, 1), "c22": (2, 2), "c12": (1, 2), "c33": (3, 3), "c01": (0, 1), "c21": (2, 1), "c31": (3, 1), "c20": (2, 0)}
TYPES = ["bool", "qubit", "unit"]


def mk_op(name):
    import hugr.ops as ops
    import hugr.tys as tys

    if name == "noop":
        return ops.Noop()
    i, o = OPS[name]
    return ops.Custom(name, tys.FunctionType([tys.Bool] * i, [tys.Bool] * o), extension="t.ext")


def check(case) -> list[Fail]:
    import hugr.tys as tys
    from hugr.build.dfg import Dfg
    from hugr.build.tracked_dfg import TrackedDfg
    from hugr.hugr.node_port import Node, OutPort

    tm = {"bool": tys.Bool, "qubit": tys.Qubit, "unit": tys.Unit}
    try:
        row = [tm[x] for x in case["width"]]
    except KeyError as e:
        raise InvalidCase from e
    t = TrackedDfg(*row, track_inputs=case.get("track_inputs", False))
    d = Dfg(*row)
    wires: list[tuple[int, int]] = [(p.node.idx, p.offset) for p in d.inputs()]
    table: list[tuple[int, int] | None] = list(wires) if case.get("track_inputs") else []
    fails: list[Fail] = []

    def W(w):
        return OutPort(Node(w[0]), w[1])

    def table_now():
        return [None if w is None else (w.out_port().node.idx, w.out_port().offset) for w in t.tracked]

    def live_idx():
        return [i for i, w in enumerate(table) if w is not None]

    def resolve(args):
        """-> (args for tracked builder, explicit wires, positions of int args)"""
        targs, xw, rebinding = [], [], []
        for pos, a in enumerate(args):
            if a[0] == "i":
                li = live_idx()
                if not li:
                    return None
                idx = li[a[1] % len(li)]
                targs.append(idx)
                xw.append(table[idx])
                rebinding.append((idx, pos))
            else:
                if not wires:
                    return None
                w = wires[a[1] % len(wires)]
                targs.append(W(w))
                xw.append(w)
        return targs, xw, rebinding

    def do_add(opn, args, meta, via_extend=False):
        r = resolve(args)
        if r is None:
            return None
        targs, xw, rebinding = r
        nin, nout = OPS[opn]
        if len(args) != nin:
            raise InvalidCase
        return (opn, targs, xw, rebinding, meta)

    def apply_add(planned, op_obj=None):
        opn, targs, xw, rebinding, meta = planned
        n2 = d.add_op(op_obj if op_obj is not None else mk_op(opn), *[W(w) for w in xw], metadata=meta)
        for idx, pos in rebinding:
            table[idx] = (n2.idx, pos)
        for k in range(OPS[opn][1]):
            wires.append((n2.idx, k))
        return n2

    def agree(ft, fd, what):
        """Run the tracked and the explicit step; an error (only possible for wires that are not outputs
        of their node) must be the same on both sides.  -> True when the history ends here."""
        e1 = e2 = None
        try:
            ft()
        except Exception as e:  # noqa: BLE001
            e1 = e
        try:
            fd()
        except Exception as e:  # noqa: BLE001
            e2 = e
        if e1 is None and e2 is None:
            return False
        if type(e1) is not type(e2):
            fails.append(Fail(what, "error-agreement", f"tracked: {e1!r} explicit: {e2!r}"[:300]))
        return True

    made: list = []  # (command object, op name, per-argument ("i", index) | ("w", wire), metadata)

    ended = False
    for s in case["steps"]:
        kind = s[0]
        if kind == "track_inputs":
            got = t.track_inputs()
            want = list(range(len(table), len(table) + len(row)))
            table.extend((p.node.idx, p.offset) for p in d.inputs())
            if got != want:
                fails.append(Fail("track", "returned-indices", f"{got} vs {want}"))
        elif kind == "track_wire":
            if not wires:
                continue
            w = wires[s[1] % len(wires)]
            got = t.track_wire(W(w))
            table.append(w)
            if got != len(table) - 1:
                fails.append(Fail("track", "returned-index", f"{got}"))
        elif kind == "track_wires":
            if not wires:
                continue
            ws = [wires[k % len(wires)] for k in s[1]]
            got = t.track_wires([W(w) for w in ws])
            want = list(range(len(table), len(table) + len(ws)))
            table.extend(ws)
            if got != want:
                fails.append(Fail("track", "returned-indices", f"{got} vs {want}"))
        elif kind == "untrack":
            li = live_idx()
            if not li:
                continue
            idx = li[s[1] % len(li)]
            got = t.untrack_wire(idx)
            gp = got.out_port()
            if (gp.node.idx, gp.offset) != table[idx]:
                fails.append(Fail("untrack", "returned-wire", f"{gp!r} vs {table[idx]}"))
            table[idx] = None
        elif kind in ("add", "readd"):
            if kind == "readd":
                # the same command object added again: its integer arguments denote the wires tracked now
                if not made:
                    continue
                com_obj, opn, spec, meta = made[s[1] % len(made)]
                if opn == "noop":
                    # a partial op object is re-typed by its next use (shared with the node added first): the
                    # explicit twin, which builds its ops afresh, would not show that; not C15's subject
                    continue
                if any(a[0] == "i" and table[a[1]] is None for a in spec):
                    continue
                xw = [table[a[1]] if a[0] == "i" else a[1] for a in spec]
                planned = (opn, None, xw, [(a[1], pos) for pos, a in enumerate(spec) if a[0] == "i"], meta)
            else:
                planned = do_add(s[1], s[2], s[3])
                if planned is None:
                    continue
                com_obj = mk_op(planned[0])(*planned[1])
                spec = [("i", a) if isinstance(a, int) else ("w", w) for a, w in zip(planned[1], planned[2])]
                made.append((com_obj, planned[0], spec, planned[4]))
            e1 = e2 = None
            try:
                n1 = t.add(com_obj, metadata=planned[4])
            except Exception as e:  # noqa: BLE001
                e1 = e
            try:
                n2 = apply_add(planned)
            except Exception as e:  # noqa: BLE001
                e2 = e
            if e1 is not None or e2 is not None:
                # only wires that are not outputs of their node can be refused; both builders must agree
                if type(e1) is not type(e2):
                    fails.append(Fail("add", "error-agreement", f"tracked: {e1!r} explicit: {e2!r}"[:300]))
                return fails
            if n1.idx != n2.idx:
                fails.append(Fail("add", "node-index", f"{n1} vs {n2}"))
        elif kind == "extend":
            # plan sequentially (each command sees earlier rebinds); the plain builder advances while planning
            coms = []
            e1 = e2 = None
            for opn, args in s[1]:
                planned = do_add(opn, args, None)
                if planned is None:
                    break
                coms.append(mk_op(opn)(*planned[1]))
                try:
                    apply_add(planned)
                except Exception as e:  # noqa: BLE001
                    e2 = e
                    break
            if len(s) > 2 and e2 is None:
                # one more command naming an index that is not tracked: extend adds the commands before it, then
                # raises IndexError; the indices rebound by those commands stay rebound
                holes = [i for i, w in enumerate(table) if w is None]
                bad = holes[s[2] % len(holes)] if holes and s[2] % 2 else len(table) + s[2]
                try:
                    t.extend(*coms, mk_op("noop")(bad))
                    fails.append(Fail("extend", "untracked-index-accepted", f"index {bad} of {table}"))
                    return fails
                except IndexError:
                    pass
                except Exception as e:  # noqa: BLE001
                    fails.append(Fail("extend", "untracked-index-wrong-error", f"{type(e).__name__}: {e}"[:200]))
                    return fails
            elif coms:
                try:
                    ns = t.extend(*coms)
                except Exception as e:  # noqa: BLE001
                    e1 = e
                if e1 is not None or e2 is not None:
                    if type(e1) is not type(e2):
                        fails.append(Fail("extend", "error-agreement", f"tracked: {e1!r} explicit: {e2!r}"[:300]))
                    return fails
                if len(ns) != len(coms):
                    fails.append(Fail("extend", "node-count", f"{len(ns)}"))
        elif kind in ("set_indexed_outputs", "set_tracked_outputs"):
            if kind == "set_indexed_outputs":
                r = resolve(s[1])
                if r is None:
                    continue
                targs, xw, _ = r
                err = agree(lambda: t.set_indexed_outputs(*targs), lambda: d.set_outputs(*[W(w) for w in xw]), kind)
            else:
                err = agree(lambda: t.set_tracked_outputs(), lambda: d.set_outputs(*[W(w) for w in table if w is not None]), kind)
            if err:
                return fails
            ended = True
        else:
            raise InvalidCase(kind)
        if table_now() != table:
            fails.append(Fail("table", f"after:{kind}", f"tracked={table_now()} reference={table}"))
            return fails
        # the documented accessor: the wire of a tracked index, IndexError for holes and indices past the end
        for i in range(len(table) + 2):
            try:
                w = t.tracked_wire(i)
                got = (w.out_port().node.idx, w.out_port().offset)
            except IndexError:
                got = None
            want = table[i] if i < len(table) else None
            if got != want:
                fails.append(Fail("tracked_wire", f"after:{kind}", f"index {i}: tracked_wire={got} reference={want}"))
                return fails
        if ended:
            break
    if not ended:
        if agree(lambda: t.set_tracked_outputs(), lambda: d.set_outputs(*[W(w) for w in table if w is not None]), "set_tracked_outputs"):
            return fails
    st_, sd = store.snapshot(t.hugr), store.snapshot(d.hugr)
    if st_[0] != sd[0]:
        diff = [i for i in sorted(set(st_[0]) | set(sd[0])) if st_[0].get(i) != sd[0].get(i)]
        i = diff[0]
        a, b = st_[0].get(i), sd[0].get(i)
        what = "metadata" if a and b and a[3] != b[3] and a[:3] == b[:3] else "node"
        fails.append(Fail("hugr-equal", what, f"node {i}: tracked={a} explicit={b}"[:300]))
    if st_[1] != sd[1]:
        fails.append(Fail("hugr-equal", "links", f"tracked={sorted(st_[1].elements())} explicit={sorted(sd[1].elements())}"[:300]))
    if not fails:
        try:
            ja, jb = json.loads(t.hugr.to_json()), json.loads(d.hugr.to_json())
            if ja != jb:
                fails.append(Fail("hugr-equal", "json", "serialized documents differ"))
        except Exception as e:  # noqa: BLE001
            from vlib.runner import exc_fail

            fails.append(exc_fail("to_json", e))
    return fails


def mixed_after_untrack(case) -> bool:
    seen_untrack = False
    for s in case["steps"]:
        if s[0] == "untrack":
            seen_untrack = True
        if s[0] == "add" and seen_untrack:
            kinds = {a[0] for a in s[2]}
            if kinds == {"i", "w"}:
                return True
    return False


def classes(case):
    out = {s[0] for s in case["steps"]}
    if mixed_after_untrack(case):
        out.add("mixed-add-after-untrack")
    if any(s[0] == "add" and s[3] for s in case["steps"]):
        out.add("add-with-metadata")
    return sorted(out)


SEL = st.integers(0, 20)
ARG = st.one_of(st.tuples(st.just("i"), SEL).map(list), st.tuples(st.just("w"), SEL).map(list))


def com():
    return st.sampled_from(list(OPS)).flatmap(lambda o: st.tuples(st.just(o), st.lists(ARG, min_size=OPS[o][0], max_size=OPS[o][0])).map(list))


STEP = weighted(
    (1, st.just(["track_inputs"])),
    (2, st.tuples(st.just("track_wire"), SEL).map(list)),
    (1, st.tuples(st.just("track_wires"), st.lists(SEL, max_size=3)).map(list)),
    (2, st.tuples(st.just("untrack"), SEL).map(list)),
    (6, com().flatmap(lambda c: store.META.map(lambda m: ["add", c[0], c[1], m]))),
    (1, st.tuples(st.just("readd"), SEL).map(list)),
    (1, st.lists(com(), min_size=1, max_size=3).map(lambda cs: ["extend", cs])),
    (1, st.tuples(st.lists(com(), min_size=1, max_size=3), st.integers(0, 5)).map(lambda t: ["extend", t[0], t[1]])),
)
END = st.one_of(st.just(["set_tracked_outputs"]), st.lists(ARG, max_size=4).map(lambda a: ["set_indexed_outputs", a]))


def strategy(tier):
    return st.fixed_dictionaries(
        {
            "width": st.lists(st.sampled_from(TYPES), max_size=6),
            "track_inputs": st.booleans(),
            "steps": st.tuples(st.lists(STEP, max_size=12 if tier == "quick" else 25), END).map(lambda t: t[0] + [t[1]]),
        }
    )


SUBS = [Sub("history", check, fuzz_runs=4000, strategy=strategy, nontrivial=mixed_after_untrack, classes=classes, n_quick=2000, n_thorough=8000)]
