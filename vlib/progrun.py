"""Interpreter of builder programs (vlib/proggen.py) against the real hugr
builders.  `run(program)` executes the events in order and returns a Result
with the root HUGR, the node handle of every event and the builder of every
region.  Exceptions raised by hugr propagate (the caller classifies them)."""

from __future__ import annotations

from vlib.interp import mk_arg, mk_op, mk_param, mk_row, mk_type, mk_value
from vlib.ref import call_inst
from vlib.runner import InvalidCase

ROOT = -1


class Result:
    def __init__(self):
        self.hugr = None
        self.root_builder = None
        self.builders = {}  # region id -> builder
        self.nodes = {}  # event id -> Node handle (as returned by the builder call)
        self.handles = []  # (event id, handle, op AST or None, expected #outputs or None) for C16
        self.hugr_of = {}  # region id -> Hugr it lives in
        self.trace = []  # executed events (index)


def partial_op(op):
    import hugr.ops as ops

    k = op["k"]
    if k == "MakeTuple":
        return ops.MakeTuple()
    if k == "UnpackTuple":
        return ops.UnpackTuple()
    if k == "Noop":
        return ops.Noop()
    if k == "CallIndirect":
        return ops.CallIndirect()
    return mk_op(op)


def run(prog, upto=None, hooks=None) -> Result:
    import hugr.ops as ops
    import hugr.tys as tys
    from hugr.build.cfg import Cfg
    from hugr.build.cond_loop import Conditional, TailLoop
    from hugr.build.dfg import Dfg, Function
    from hugr.build.function import Module
    from hugr.hugr.node_port import Node

    res = Result()
    root = prog["root"]
    kind = root["kind"]
    if kind == "module":
        rb = Module()
    elif kind == "dfg":
        rb = Dfg(*mk_row(root["ins"]))
    elif kind == "function":
        rb = Function(root["name"], mk_row(root["ins"]), [mk_param(p) for p in root["params"]])
    elif kind == "cfg":
        rb = Cfg(*mk_row(root["ins"]))
    elif kind == "cond":
        rb = Conditional(tys.Sum([mk_row(r) for r in root["rows"]]), mk_row(root["others"]))
    elif kind == "loop":
        rb = TailLoop(mk_row(root["just"]), mk_row(root["rest"]))
    else:
        raise InvalidCase(kind)
    res.root_builder = rb
    res.hugr = rb.hugr
    B = res.builders
    B[ROOT] = rb
    N = res.nodes
    ops_made: dict = {}

    def wire(w):
        if "in" in w:
            return B[w["in"]].input_node.out(w["o"])
        if "root" in w:  # only produced by C13's injections
            return res.hugr.root.out(w["root"])
        n = N[w["n"]]
        return n.out(w["o"])

    res.wire = wire  # for checks that repeat a call on the interpreter's state

    def nref(x):
        if "in" in x:
            return B[x["in"]].input_node
        if "out" in x:
            return B[x["out"]].output_node
        return N[x["n"]]

    def to_node(x):
        if isinstance(x, Module):
            return x.hugr.root
        if hasattr(x, "parent_node"):
            return x.parent_node
        return x.to_node() if hasattr(x, "to_node") else x

    for idx, ev in enumerate(prog["events"]):
        if upto is not None and idx >= upto:
            break
        e = ev["e"]
        if hooks and "before" in hooks:
            hooks["before"](idx, ev, res)
        if prog.get("churn") and e in ("cond", "cfg", "loop", "nested", "func", "if", "block", "successor", "entry", "load", "const"):
            # scratch nodes added under the root and deleted again: no trace but the free indices, which the nodes
            # created next reuse most recent first (child order and index order then differ)
            # (the smallest is freed last: the container created next takes it, its children the others, in
            # descending order - an index is only reused for a child above its parent)
            scratch = [res.hugr.add_node(ops.Noop(tys.Bool), res.hugr.root) for _ in range(3 + idx % 3)]
            for sn in scratch[1:] + scratch[:1]:
                res.hugr.delete_node(sn)
        if e == "op":
            b = B[ev["r"]]
            op = partial_op(ev["op"]) if ev.get("partial") else mk_op(ev["op"])
            if ev.get("same_as") is not None:
                op = ops_made[ev["same_as"]]  # the operation object of an earlier node, used again
            ops_made[idx] = op
            ws = [wire(w) for w in ev["args"]]
            mode = ev.get("mode", "add_op")
            if mode == "add_op":
                n = b.add_op(op, *ws, metadata=ev.get("meta"))
            elif mode == "add":
                n = b.add(op(*ws), metadata=ev.get("meta"))
            else:
                n = b.extend(op(*ws))[0]
            N[idx] = n
            res.handles.append((idx, n, ev["op"]))
        elif e == "load":
            b = B[ev["r"]]
            cp = None if ev.get("cp") is None else to_node(B[ev["cp"]])
            n = b.load(mk_value(ev["v"]), const_parent=cp) if cp is not None else b.load(mk_value(ev["v"]))
            N[idx] = n
            res.handles.append((idx, n, {"k": "LoadConst", "t": None}))
        elif e == "const":
            b = B[ev["r"]]
            if isinstance(b, Module):
                n = b.add_const(mk_value(ev["v"]))
            elif hasattr(b, "add_const"):
                n = b.add_const(mk_value(ev["v"]), parent=b.parent_node)
            else:
                n = b.hugr.add_const(mk_value(ev["v"]), b.parent_node)
            N[idx] = n
        elif e == "load_node":
            b = B[ev["r"]]
            n = b.load(N[ev["c"]])
            N[idx] = n
            res.handles.append((idx, n, {"k": "LoadConst", "t": None}))
        elif e in ("call", "load_func"):
            b = B[ev["r"]]
            f = N[ev["f"]]
            sig = ev["sig"]
            inst = targs = None
            if sig["params"]:
                i, o, reqs = call_inst(dict(sig, targs=ev["targs"]))
                inst = tys.FunctionType(mk_row(i), mk_row(o), list(reqs))
                targs = [mk_arg(a) for a in ev["targs"]]
            if e == "call":
                n = b.call(f, *[wire(w) for w in ev["args"]], instantiation=inst, type_args=targs)
                res.handles.append((idx, n, dict(sig, k="Call", targs=ev["targs"])))
            else:
                n = b.load_function(f, instantiation=inst, type_args=targs)
            N[idx] = n
        elif e == "order":
            B[ev["r"]].add_state_order(nref(ev["a"]), nref(ev["b"]))
        elif e == "nested":
            b = B[ev["r"]]
            nb = b.add_nested(*[wire(w) for w in ev["args"]])
            B[idx] = nb
            N[idx] = nb.parent_node
        elif e == "loop":
            b = B[ev["r"]]
            nb = b.add_tail_loop([wire(w) for w in ev["just"]], [wire(w) for w in ev["rest"]])
            B[idx] = nb
            N[idx] = nb.parent_node
        elif e == "cond":
            b = B[ev["r"]]
            nb = b.add_conditional(wire(ev["sum"]), *[wire(w) for w in ev["args"]])
            B[idx] = nb
            N[idx] = nb.parent_node
        elif e == "if":
            b = B[ev["r"]]
            ib = b.add_if(wire(ev["cond"]), *[wire(w) for w in ev["args"]])
            B[f"{idx}i"] = ib
            B[idx] = ib._parent_conditional()
            N[idx] = ib.conditional_node
        elif e == "else":
            ib = B[f"{ev['if']}i"]
            B[idx] = ib.add_else()
        elif e == "case":
            B[idx] = B[ev["c"]].add_case(ev["i"])
        elif e == "cfg":
            b = B[ev["r"]]
            nb = b.add_cfg(*[wire(w) for w in ev["args"]])
            B[idx] = nb
            N[idx] = nb.parent_node
        elif e == "entry":
            nb = B[ev["c"]].add_entry()
            B[idx] = nb
            N[idx] = nb.parent_node
        elif e == "block":
            nb = B[ev["c"]].add_block(*mk_row(ev["ins"]))
            B[idx] = nb
            N[idx] = nb.parent_node
        elif e == "successor":
            p = ev["pred"]
            nb = B[ev["c"]].add_successor(B[p["b"]].parent_node.out(p["i"]))
            B[idx] = nb
            N[idx] = nb.parent_node
        elif e == "branch":
            c = B[ev["c"]]
            s = ev["src"]
            src = B[s["b"]].parent_node.out(s["i"])
            if ev["dst"] == "exit" and (s["b"] + s["i"]) % 2:
                # the dedicated method and `branch(src, exit)` are documented as the same operation;
                # which one is used is a pure function of the event
                c.branch_exit(src)
            else:
                c.branch(src, c.exit if ev["dst"] == "exit" else B[ev["dst"]].parent_node)
        elif e == "func":
            holder = B[ev["m"]]
            parent = None if isinstance(holder, Module) else to_node(holder)
            if isinstance(holder, Module) and ev["name"] == "main" and ev["outs"] is None and not ev["params"]:
                # the shorthand documented as define_function("main", inputs)
                fb = holder.define_main(mk_row(ev["ins"]))
            else:
                fb = holder.define_function(
                    ev["name"],
                    mk_row(ev["ins"]),
                    mk_row(ev["outs"]) if ev["outs"] is not None else None,
                    [mk_param(p) for p in ev["params"]] or None,
                    parent,
                )
            B[idx] = fb
            N[idx] = fb.parent_node
        elif e == "decl":
            m = B[ROOT]
            N[idx] = m.declare_function(ev["name"], tys.PolyFuncType([mk_param(p) for p in ev["params"]], tys.FunctionType(mk_row(ev["i"]), mk_row(ev["o"]), list(ev.get("reqs", [])))))
        elif e == "alias":
            m = B[ev["r"]]
            op = ev["op"]
            if op["k"] == "AliasDecl":
                from vlib.interp import bound

                N[idx] = m.add_alias_decl(op["name"], bound(op["b"]))
            else:
                N[idx] = m.add_alias_defn(op["name"], mk_type(op["t"]))
        elif e == "detached":
            k = ev["kind"]
            if k == "dfg":
                nb = Dfg(*mk_row(ev["ins"]))
            elif k == "loop":
                nb = TailLoop(mk_row(ev["just"]), mk_row(ev["rest"]))
            elif k == "cond":
                nb = Conditional(tys.Sum([mk_row(r) for r in ev["rows"]]), mk_row(ev["others"]))
            else:
                nb = Cfg(*mk_row(ev["ins"]))
            B[idx] = nb
        elif e == "insert":
            b = B[ev["r"]]
            d = B[ev["d"]]
            k = ev["kind"]
            if k == "dfg":
                n = b.insert_nested(d, *[wire(w) for w in ev["args"]])
            elif k == "loop":
                n = b.insert_tail_loop(d, [wire(w) for w in ev["just"]], [wire(w) for w in ev["rest"]])
            elif k == "cond":
                n = b.insert_conditional(d, wire(ev["sum"]), *[wire(w) for w in ev["args"]])
            else:
                n = b.insert_cfg(d, *[wire(w) for w in ev["args"]])
            N[idx] = n
            res.handles.append((idx, n, {"k": "inserted", "d": ev["d"]}))
        elif e == "close":
            b = B[ev["r"]]
            outs = [wire(w) for w in ev["outs"]]
            mode = ev.get("mode", "set_outputs")
            if mode == "set_block_outputs":
                b.set_block_outputs(outs[0], *outs[1:])
            elif mode == "set_loop_outputs":
                b.set_loop_outputs(outs[0], *outs[1:])
            elif mode == "set_single_succ_outputs":
                b.set_single_succ_outputs(*outs)
            else:
                b.set_outputs(*outs)
            # container handle after its outputs are set
            if ev["r"] in N and hasattr(b, "parent_node"):
                N[ev["r"]] = b.parent_node
        else:
            raise InvalidCase(e)
        res.trace.append(idx)
        if hooks and "after" in hooks:
            hooks["after"](idx, ev, res)
    return res
