"""Entry point: python -m vlib.main <ID> <quick|thorough> [--replay file]."""

from __future__ import annotations

import importlib
import json
import multiprocessing as mp
import os
import sys
import time

from vlib import runner
from vlib.runner import VERIF, Collector, Fail, Sub, canon, drive_sub, load_known, match_known, shrink_case

NSHARDS = int(os.environ.get("VERIF_SHARDS", "16"))


def _load(prop: str):
    return importlib.import_module(f"vlib.props.{prop.lower()}")


def _subs(mod) -> dict[str, Sub]:
    return {s.name: s for s in mod.SUBS}


def _shard_worker(args):
    prop, tier, shard, nshards = args
    runner.limit_resources()
    mod = _load(prop)
    col = Collector(prop)
    for sub in mod.SUBS:
        try:
            drive_sub(sub, tier, 0, shard, nshards, col)
        except Exception as e:  # noqa: BLE001
            import traceback

            col.harness_errors.append(f"{sub.name}: driver: {type(e).__name__}: {e}\n" + traceback.format_exc()[-1500:])
    return col.to_dict()


FUZZ_WORKERS = int(os.environ.get("VERIF_FUZZ_WORKERS", "8"))


def _fuzz_stage(mod, prop: str, tier: str, seed: int, col: Collector) -> dict:
    """Coverage-guided stage (thorough tier): atheris workers over the sub-checks that ask for it.
    Their results are merged like shard results; a worker that is lost only shows in the evidence."""
    import re
    import shutil
    import subprocess
    import tempfile
    from concurrent.futures import ThreadPoolExecutor

    subs = [s for s in mod.SUBS if s.fuzz_runs and s.strategy is not None]
    if not subs or os.environ.get("VERIF_NO_FUZZ"):
        return {}
    try:
        import atheris  # noqa: F401
    except Exception as e:  # noqa: BLE001
        return {"fuzz": {"skipped": f"atheris not importable: {type(e).__name__}"}}
    tmp = tempfile.mkdtemp(prefix="verif-fuzz-")
    stats: dict = {}

    def work(job):
        sub, w = job
        out = os.path.join(tmp, f"{sub.name}-{w}.json")
        err = os.path.join(tmp, f"{sub.name}-{w}.err")
        wseed = runner.derive_seed(seed, prop, sub.name, "fuzz", w) % (2**31 - 1) + 1
        cmd = [sys.executable, "-m", "vlib.fuzz", prop, sub.name, tier, str(wseed), str(sub.fuzz_runs), out, os.path.join(tmp, f"corpus-{sub.name}-{w}")]
        with open(err, "w") as ef:
            try:
                subprocess.run(cmd, stdout=ef, stderr=ef, timeout=sub.budget_thorough, check=False)
            except subprocess.TimeoutExpired:
                pass
        cov = ft = 0
        try:
            with open(err, errors="replace") as ef:
                for m in re.finditer(r"cov: (\d+) ft: (\d+)", ef.read()):
                    cov, ft = int(m.group(1)), int(m.group(2))
        except OSError:
            pass
        d = None
        if os.path.exists(out):
            with open(out) as f:
                d = json.load(f)
        return sub.name, d, cov, ft

    try:
        with ThreadPoolExecutor(max(1, NSHARDS)) as ex:
            for name, d, cov, ft in ex.map(work, [(s, w) for s in subs for w in range(FUZZ_WORKERS)]):
                st = stats.setdefault(name, {"workers": 0, "lost_workers": 0, "inputs": 0, "cases_evaluated": 0, "edges_covered_max": 0, "features_max": 0})
                st["workers"] += 1
                if d is None:
                    st["lost_workers"] += 1
                    continue
                st["inputs"] += d.get("fuzz_inputs", 0)
                st["cases_evaluated"] += d["evaluations"]
                st["edges_covered_max"] = max(st["edges_covered_max"], cov)
                st["features_max"] = max(st["features_max"], ft)
                col.merge(d)
    finally:
        shutil.rmtree(tmp, ignore_errors=True)
    return {"fuzz": stats}


def _replay_corpus(mod, col: Collector) -> int:
    d = os.path.join(VERIF, "replays", mod.PROPERTY_ID)
    n = 0
    if not os.path.isdir(d):
        return 0
    subs = _subs(mod)
    for fn in sorted(os.listdir(d)):
        if not fn.endswith(".json"):
            continue
        with open(os.path.join(d, fn)) as f:
            r = json.load(f)
        sub = subs.get(r.get("sub"))
        if sub is None:
            continue
        col.run_case(sub, r["case"])
        n += 1
    return n


def main(argv: list[str]) -> int:
    if len(argv) < 2:
        print("usage: check <ID> <quick|thorough> [--replay file]")
        return 2
    prop, tier = argv[0].upper(), argv[1]
    replay = None
    if "--replay" in argv:
        replay = argv[argv.index("--replay") + 1]
    if tier not in ("quick", "thorough"):
        print("tier must be quick or thorough")
        return 2
    os.environ["VERIF_TIER"] = tier
    runner.limit_resources()
    seed = int(os.environ.get("VERIF_SEED", "1") or "1")
    t0 = time.monotonic()
    try:
        mod = _load(prop)
    except Exception as e:  # noqa: BLE001
        import traceback

        traceback.print_exc()
        print(f"HARNESS-ERROR: cannot import property module for {prop}: {e}")
        return 2
    known = load_known(prop)
    requires = getattr(mod, "REQUIRES", {})
    col = Collector(prop)

    if replay is not None:
        with open(replay) as f:
            r = json.load(f)
        sub = _subs(mod)[r["sub"]]
        fails = col.run_case(sub, r["case"])
        if col.harness_errors:
            print("HARNESS-ERROR:", col.harness_errors[0])
            return 2
        rc = 0
        for f in fails:
            b = f.bucket(prop)
            k = match_known(known, b, r["case"], requires)
            if k:
                print(f"KNOWN-FINDING: property={prop} {k['what']}")
            else:
                print(f"FAIL bucket={b} :: {f.msg}")
                rc = 1
        if rc:
            print(f"VIOLATION property={prop} replay={replay}")
        else:
            print(f"replay ok: property={prop} ({len(fails)} known)")
        return rc

    n_replayed = _replay_corpus(mod, col)
    if tier == "quick" or NSHARDS <= 1:
        for sub in mod.SUBS:
            try:
                drive_sub(sub, tier, seed, 0, 1, col)
            except Exception as e:  # noqa: BLE001
                import traceback

                col.harness_errors.append(f"{sub.name}: driver: {type(e).__name__}: {e}\n" + traceback.format_exc()[-1500:])
    else:
        ctx = mp.get_context("fork")
        with ctx.Pool(NSHARDS) as pool:
            for d in pool.imap_unordered(_shard_worker, [(prop, tier, i, NSHARDS) for i in range(NSHARDS)]):
                col.merge(d)

    extra = {}
    if tier == "thorough":
        try:
            extra.update(_fuzz_stage(mod, prop, tier, seed, col))
        except Exception as e:  # noqa: BLE001
            col.harness_errors.append(f"fuzz stage: {type(e).__name__}: {e}")
    if hasattr(mod, "extra_evidence"):
        try:
            extra.update(mod.extra_evidence(tier) or {})
        except Exception as e:  # noqa: BLE001
            col.harness_errors.append(f"extra_evidence: {type(e).__name__}: {e}")

    # ---- verdicts
    subs = _subs(mod)
    out_dir = os.path.join(os.environ.get("VERIF_OUT_DIR") or os.path.join(VERIF, "out"), prop)
    violations: list[tuple[str, str, str]] = []
    known_hits: list[tuple[dict, int]] = []
    shrink_budget = 20.0 if tier == "quick" else 90.0
    n_shrunk = 0
    for b in sorted(col.failures, key=lambda b: col.failures[b]["size"]):
        f = col.failures[b]
        sub = subs[f["sub"]]
        case = f["case"]
        k = match_known(known, b, case, requires)
        if k is None and n_shrunk < 4 and not os.environ.get("VERIF_NO_SHRINK"):
            try:
                case = shrink_case(sub, prop, case, b, shrink_budget)
            except Exception:  # noqa: BLE001
                pass
            n_shrunk += 1
            k = match_known(known, b, case, requires)
        if k is not None:
            known_hits.append((k, f["count"]))
            continue
        os.makedirs(out_dir, exist_ok=True)
        safe = "".join(ch if ch.isalnum() or ch in "-_." else "_" for ch in b)[:120]
        path = os.path.join(out_dir, safe + ".json")
        with open(path, "w") as fh:
            json.dump({"property": prop, "sub": f["sub"], "bucket": b, "msg": f["msg"], "case": case}, fh, indent=1, sort_keys=True)
        violations.append((b, path, f["msg"]))

    wall = time.monotonic() - t0
    rule = mod.RULE
    evidence = {
        "property_id": prop,
        "tier": tier,
        "seed": seed,
        "level": "exploration",
        "coverage": {
            "evaluations": col.evaluations,
            "distinct_nontrivial": len(col.nt_hashes),
            "rule": rule,
            "samples": col.samples[:8],
            "per_subcheck": col.per_sub,
            "classes": dict(sorted(col.classes.items())),
            "exhaustive_subchecks": col.exhaustive,
            "exhaustive": bool(col.exhaustive) and all(col.exhaustive.values()) and all(s.enumerate is not None and s.strategy is None for s in mod.SUBS),
            "replayed_corpus_cases": n_replayed,
            "excluded_known": [{"what": k["what"], "bucket": k["bucket"], "cases": c} for k, c in known_hits],
            "invalid_cases": col.invalid,
            "inconclusive_case_timeouts": col.timeouts,
            "stopped_by_time_budget": col.budget_stopped,
            "shards": 1 if tier == "quick" else NSHARDS,
            **extra,
        },
        "assumptions": list(getattr(mod, "ASSUMPTIONS", [])),
        "wall_s": round(wall, 2),
        "violations": len(violations),
    }
    ev_dir = os.environ.get("VERIF_EVIDENCE_DIR") or os.path.join(VERIF, "evidence")
    os.makedirs(ev_dir, exist_ok=True)
    with open(os.path.join(ev_dir, f"{prop}.json"), "w") as fh:
        json.dump(evidence, fh, indent=1, sort_keys=False, default=repr)
        fh.write("\n")

    if col.harness_errors:
        for e in col.harness_errors[:3]:
            print("HARNESS-ERROR:", e)
        print(f"HARNESS-ERROR: {len(col.harness_errors)} harness errors; no verdict")
        return 2
    seen_known = set()
    for k, c in known_hits:
        key = (k["bucket"], k.get("requires"))
        if key in seen_known:
            continue
        seen_known.add(key)
        print(f"KNOWN-FINDING: property={prop} {k['what']}")
    for i, (b, path, msg) in enumerate(violations):
        if i < 8:
            print(f"FAIL bucket={b} :: {msg}")
        print(f"VIOLATION property={prop} replay={path}")
    print(
        f"{prop} {tier}: evaluations={col.evaluations} distinct_nontrivial={len(col.nt_hashes)} "
        f"violating_buckets={len(violations)} known={len(known_hits)} wall={wall:.1f}s"
    )
    return 1 if violations else 0


if __name__ == "__main__":
    sys.exit(main(sys.argv[1:]))
