"""Coverage-guided stage of the thorough tier.

    python -m vlib.fuzz <ID> <sub> <tier> <seed> <runs> <out.json> <corpus-dir>

atheris (libFuzzer) mutates a byte string; Hypothesis' `fuzz_one_input` decodes it with the
sub-check's own strategy into a case (so every input is a well-formed case and shrinking /
replay stay those of the ordinary runner); the case goes through the ordinary oracle
(`Collector.run_case`), which never raises: failures are bucketed and written to <out.json>,
from where the parent merges them like the result of a shard.  The pure-Python modules of
the package under test are instrumented for coverage feedback.

libFuzzer ends the process without running Python's exit handlers, so the result file is
rewritten every few hundred executions and the process leaves by itself after <runs>."""

from __future__ import annotations

import importlib
import json
import os
import sys

INSTRUMENTED = [
    "hugr.utils", "hugr.hugr.node_port", "hugr.hugr.base", "hugr.hugr.render", "hugr.tys", "hugr.val", "hugr.ops", "hugr.ext",
    "hugr.build.base", "hugr.build.dfg", "hugr.build.tracked_dfg", "hugr.build.cond_loop", "hugr.build.cfg", "hugr.build.function",
    "hugr.envelope", "hugr.package", "hugr.qsystem.result", "hugr.model.export",
]


def main(argv):
    prop, subname, tier, seed, runs, out, corpus = argv[0], argv[1], argv[2], int(argv[3]), int(argv[4]), argv[5], argv[6]
    import atheris

    with atheris.instrument_imports(include=["hugr"], enable_loader_override=False):
        for m in INSTRUMENTED:
            try:
                importlib.import_module(m)
            except Exception:  # noqa: BLE001 - a module that does not import is the checks' business
                pass
    from hypothesis import HealthCheck, Phase, Verbosity, given, settings

    from vlib import runner
    from vlib.runner import Collector

    runner.limit_resources()
    os.environ["VERIF_TIER"] = tier
    mod = importlib.import_module(f"vlib.props.{prop.lower()}")
    sub = {s.name: s for s in mod.SUBS}[subname]
    col = Collector(prop)
    n = [0]

    @settings(database=None, deadline=None, suppress_health_check=list(HealthCheck), phases=[Phase.generate], verbosity=Verbosity.quiet)
    @given(sub.strategy(tier))
    def t(case):
        col.run_case(sub, case)

    def dump():
        d = col.to_dict()
        d["fuzz_inputs"] = n[0]
        tmp = out + ".tmp"
        with open(tmp, "w") as f:
            json.dump(d, f, default=repr)
        os.replace(tmp, out)

    def one(data):
        n[0] += 1
        try:
            t.hypothesis.fuzz_one_input(data)
        except Exception as e:  # noqa: BLE001 - generation problems are harness errors, never verdicts
            col.harness_errors.append(f"{subname}: fuzz driver: {type(e).__name__}: {e}"[:500])
        if n[0] % 300 == 0 or n[0] >= runs:
            dump()
        if n[0] >= runs:
            sys.stderr.flush()
            os._exit(0)

    os.makedirs(corpus, exist_ok=True)
    # -handle_alrm=0: SIGALRM stays with the runner's per-case alarm; -len_control=0: long inputs from the start
    # (a Hypothesis byte stream shorter than the strategy needs is rejected, not a case)
    atheris.Setup([sys.argv[0], f"-runs={runs + 100000}", f"-seed={seed or 1}", "-max_len=8192", "-len_control=0", "-handle_alrm=0", "-print_final_stats=0", "-verbosity=1", corpus], one)
    atheris.Fuzz()


if __name__ == "__main__":
    main(sys.argv[1:])
