"""Document mutators for the oracle self-test of the reference validator
(DESIGN 2.3 (b)): each takes an *accepted* document and returns an invalid one
(or None when not applicable) together with the clause families that must fire."""

from __future__ import annotations

import copy

from vlib import refval


def _children(doc):
    ch = {i: [] for i in range(len(doc["nodes"]))}
    for i, n in enumerate(doc["nodes"]):
        if i:
            ch[n["parent"]].append(i)
    return ch


def _pick(xs, k):
    return xs[k % len(xs)] if xs else None


def swap_io(doc, k):
    """Swap Input and Output of a dataflow parent (positions are mandated)."""
    ch = _children(doc)
    ps = [p for p, c in ch.items() if doc["nodes"][p]["op"] in refval.DATAFLOW_PARENTS and len(c) >= 2]
    p = _pick(ps, k)
    if p is None:
        return None
    a, b = ch[p][0], ch[p][1]
    d = copy.deepcopy(doc)
    d["nodes"][a], d["nodes"][b] = d["nodes"][b], d["nodes"][a]
    for e in d["edges"]:
        for end in e:
            if end[0] == a:
                end[0] = b
            elif end[0] == b:
                end[0] = a
    return d, {"R-first-second-child", "R-io-rows", "R-port-range", "R-kind-eq", "R-must-connect"}


def drop_edge(doc, k):
    """Remove an edge that feeds a value/static input."""
    sigs = [refval.jsig(n) for n in doc["nodes"]]
    cands = []
    for j, e in enumerate(doc["edges"]):
        (s, so), (t, to) = e
        kd = refval.port_kind(sigs[t], "in", to)
        if kd and kd[0] in ("value", "const", "fn") and doc["nodes"][t]["op"] != "Case":
            cands.append(j)
    j = _pick(cands, k)
    if j is None:
        return None
    d = copy.deepcopy(doc)
    del d["edges"][j]
    return d, {"R-must-connect"}


def dup_linear(doc, k):
    """Use a linear output twice."""
    sigs = [refval.jsig(n) for n in doc["nodes"]]
    cands = []
    for j, e in enumerate(doc["edges"]):
        (s, so), (t, to) = e
        kd = refval.port_kind(sigs[s], "out", so)
        if kd and kd[0] == "value" and refval.bound_of(kd[1]) == "A":
            cands.append(j)
    j = _pick(cands, k)
    if j is None:
        return None
    d = copy.deepcopy(doc)
    d["edges"].append(copy.deepcopy(d["edges"][j]))
    return d, {"R-must-connect"}


def drop_order_for_ext(doc, k):
    """Remove the order edge that accompanies a non-local value edge."""
    sigs = [refval.jsig(n) for n in doc["nodes"]]
    nodes = doc["nodes"]
    cands = []
    for (s, so), (t, to) in doc["edges"]:
        kd = refval.port_kind(sigs[s], "out", so)
        if not kd or kd[0] != "value" or s == 0 or t == 0:
            continue
        if nodes[s]["parent"] == nodes[t]["parent"]:
            continue
        # ancestor of t that is a sibling of s
        a = t
        while a != 0 and nodes[a]["parent"] != nodes[s]["parent"]:
            a = nodes[a]["parent"]
        if a == 0:
            continue
        sop = refval.port_count(sigs[s], "out") - 1
        for j, ((s2, so2), (t2, _)) in enumerate(doc["edges"]):
            if s2 == s and so2 == sop and t2 == a and sigs[s]["other_out"] == "order":
                cands.append(j)
    j = _pick(cands, k)
    if j is None:
        return None
    d = copy.deepcopy(doc)
    e = d["edges"][j]
    d["edges"] = [x for x in d["edges"] if x != e]
    return d, {"R-locality"}


def shift_offset(doc, k):
    """Move the target of a value edge to the next input offset."""
    sigs = [refval.jsig(n) for n in doc["nodes"]]
    cands = [j for j, ((s, so), (t, to)) in enumerate(doc["edges"]) if (refval.port_kind(sigs[t], "in", to) or ("?",))[0] == "value"]
    j = _pick(cands, k)
    if j is None:
        return None
    d = copy.deepcopy(doc)
    d["edges"][j][1][1] += 1
    return d, {"R-port-range", "R-kind-eq", "R-must-connect"}


def change_input_row(doc, k):
    """Change the row of an Input node."""
    cands = [i for i, n in enumerate(doc["nodes"]) if n["op"] == "Input"]
    i = _pick(cands, k)
    if i is None:
        return None
    d = copy.deepcopy(doc)
    d["nodes"][i]["types"] = list(d["nodes"][i]["types"]) + [{"t": "I"}]
    return d, {"R-io-rows"}


def change_edge_type(doc, k):
    """Change the declared type of one output of an Extension op with a connected output."""
    sigs = [refval.jsig(n) for n in doc["nodes"]]
    cands = []
    for (s, so), _ in doc["edges"]:
        if doc["nodes"][s]["op"] == "Extension" and so < len(sigs[s]["outs"]):
            cands.append((s, so))
    c = _pick(cands, k)
    if c is None:
        return None
    s, so = c
    d = copy.deepcopy(doc)
    old = d["nodes"][s]["signature"]["output"][so]
    d["nodes"][s]["signature"]["output"][so] = {"t": "I"} if old != {"t": "I"} else {"t": "Sum", "s": "Unit", "size": 3}
    return d, {"R-kind-eq", "R-must-connect", "R-locality"}


def make_cycle(doc, k):
    """Add an order edge closing a cycle between two dataflow siblings joined by a value edge."""
    sigs = [refval.jsig(n) for n in doc["nodes"]]
    nodes = doc["nodes"]
    cands = []
    for (s, so), (t, to) in doc["edges"]:
        if s and t and nodes[s]["parent"] == nodes[t]["parent"] and sigs[s]["other_in"] == "order" and sigs[t]["other_out"] == "order" and s != t:
            cands.append((s, t))
    c = _pick(cands, k)
    if c is None:
        return None
    s, t = c
    d = copy.deepcopy(doc)
    d["edges"].append([[t, refval.port_count(sigs[t], "out") - 1], [s, refval.port_count(sigs[s], "in") - 1]])
    return d, {"R-dag"}


def bad_parent(doc, k):
    """Re-parent a leaf dataflow op directly under a Module / Conditional / CFG."""
    ch = _children(doc)
    nodes = doc["nodes"]
    leaves = [i for i, n in enumerate(nodes) if n["op"] in ("Extension", "Tag", "LoadConstant") and i]
    targets = [i for i, n in enumerate(nodes) if n["op"] in ("Module", "Conditional", "CFG")]
    if not leaves or not targets:
        return None
    d = copy.deepcopy(doc)
    d["nodes"][_pick(leaves, k)]["parent"] = _pick(targets, k)
    return d, {"R-parent-child", "R-io-rows", "R-first-second-child", "R-locality", "R-hierarchy"}


def corrupt_const_tag(doc, k):
    cands = [i for i, n in enumerate(doc["nodes"]) if n["op"] == "Const" and n["v"].get("v") == "Sum"]
    i = _pick(cands, k)
    if i is None:
        return None
    d = copy.deepcopy(doc)
    v = d["nodes"][i]["v"]
    rows = v["typ"]["size"] if v["typ"].get("s") == "Unit" else len(v["typ"]["rows"])
    v["tag"] = rows + 1
    return d, {"R-const:tag-range"}


def const_field_type(doc, k):
    """Put a value of the wrong type into a sum constant's field."""
    cands = [i for i, n in enumerate(doc["nodes"]) if n["op"] == "Const" and n["v"].get("v") == "Sum" and n["v"]["vs"]]
    i = _pick(cands, k)
    if i is None:
        return None
    d = copy.deepcopy(doc)
    d["nodes"][i]["v"]["vs"][0] = {"v": "Sum", "tag": 0, "typ": {"t": "Sum", "s": "Unit", "size": 7}, "vs": []}
    return d, {"R-const:field-type"}


def break_call(doc, k):
    cands = [i for i, n in enumerate(doc["nodes"]) if n["op"] == "Call"]
    i = _pick(cands, k)
    if i is None:
        return None
    d = copy.deepcopy(doc)
    d["nodes"][i]["instantiation"]["output"] = list(d["nodes"][i]["instantiation"]["output"]) + [{"t": "I"}]
    return d, {"R-call"}


def drop_case(doc, k):
    ch = _children(doc)
    cands = [i for i, n in enumerate(doc["nodes"]) if n["op"] == "Conditional" and ch[i]]
    i = _pick(cands, k)
    if i is None:
        return None
    d = copy.deepcopy(doc)
    d["nodes"][i]["sum_rows"] = list(d["nodes"][i]["sum_rows"]) + [[]]
    return d, {"R-io-rows", "R-kind-eq"}


def swap_entry_exit(doc, k):
    ch = _children(doc)
    cands = [i for i, n in enumerate(doc["nodes"]) if n["op"] == "CFG" and len(ch[i]) >= 2]
    p = _pick(cands, k)
    if p is None:
        return None
    a, b = ch[p][0], ch[p][1]
    d = copy.deepcopy(doc)
    d["nodes"][a], d["nodes"][b] = d["nodes"][b], d["nodes"][a]
    for i, n in enumerate(d["nodes"]):
        if i and n["parent"] == a:
            n["parent"] = b
        elif i and n["parent"] == b:
            n["parent"] = a
    for e in d["edges"]:
        for end in e:
            if end[0] == a:
                end[0] = b
            elif end[0] == b:
                end[0] = a
    return d, {"R-first-second-child", "R-parent-child", "R-hierarchy"}


def break_cfg_edge(doc, k):
    """Change the inputs of a non-entry block that is the target of a control-flow edge."""
    nodes = doc["nodes"]
    ch = _children(doc)
    cands = []
    for (s, so), (t, to) in doc["edges"]:
        if nodes[s]["op"] == "DataflowBlock" and nodes[t]["op"] == "DataflowBlock" and ch[nodes[t]["parent"]][0] != t:
            cands.append(t)
    t = _pick(cands, k)
    if t is None:
        return None
    d = copy.deepcopy(doc)
    d["nodes"][t]["inputs"] = list(d["nodes"][t].get("inputs", [])) + [{"t": "I"}]
    return d, {"R-cfg-edge", "R-io-rows"}


def root_parent(doc, k):
    if len(doc["nodes"]) < 2:
        return None
    d = copy.deepcopy(doc)
    d["nodes"][0]["parent"] = 1
    return d, {"R-root", "R-hierarchy"}


def nonlocal_linear(doc, k):
    """Retarget a local linear edge's source... instead: make an Ext edge carry a linear type."""
    sigs = [refval.jsig(n) for n in doc["nodes"]]
    nodes = doc["nodes"]
    cands = []
    for j, ((s, so), (t, to)) in enumerate(doc["edges"]):
        kd = refval.port_kind(sigs[s], "out", so)
        if kd and kd[0] == "value" and s and t and nodes[s]["parent"] != nodes[t]["parent"] and nodes[s]["op"] == "Extension":
            cands.append((j, s, so, t, to))
    c = _pick(cands, k)
    if c is None:
        return None
    j, s, so, t, to = c
    d = copy.deepcopy(doc)
    d["nodes"][s]["signature"]["output"][so] = {"t": "Q"}
    return d, {"R-locality", "R-kind-eq", "R-must-connect"}


MUTATORS = [
    swap_io, drop_edge, dup_linear, drop_order_for_ext, shift_offset, change_input_row, change_edge_type, make_cycle,
    bad_parent, corrupt_const_tag, const_field_type, break_call, drop_case, swap_entry_exit, break_cfg_edge, root_parent, nonlocal_linear,
]


def selftest(docs):
    """Apply every mutator to every accepted document; a mutated document that the
    validator still accepts is a miss.  Returns per-mutator counts."""
    out = {}
    for m in MUTATORS:
        applied = rejected = named = 0
        missed = []
        for di, doc in enumerate(docs):
            for k in (0, 1, 2):
                try:
                    r = m(doc, k + di)
                except (KeyError, IndexError, TypeError):
                    r = None
                if r is None:
                    continue
                d, clauses = r
                applied += 1
                try:
                    errs = refval.validate(d)
                except Exception as e:  # noqa: BLE001 - a crashing validator also rejects nothing
                    errs = [("crash", repr(e))]
                if errs:
                    rejected += 1
                    if any(c == e[0] or e[0].startswith(c) for e in errs for c in clauses):
                        named += 1
                elif len(missed) < 2:
                    missed.append(di)
        out[m.__name__] = {"applied": applied, "rejected": rejected, "by_expected_clause": named, "missed_docs": missed}
    return out
