"""Interpreters from case-language ASTs to hugr objects.  The only place where
hugr constructors are called for types, values and ops."""

from __future__ import annotations

from vlib.ref import call_inst
from vlib.runner import InvalidCase

_EXT_CACHE: dict = {}
# When True, arguments whose declared type is Iterable[...] are passed as one-shot iterators
# (generators) instead of lists: the API accepts any iterable.
ONE_SHOT = [False]


def _it(xs):
    return iter(list(xs)) if ONE_SHOT[0] else xs


def bound(b):
    import hugr.tys as tys

    return tys.TypeBound.Copyable if b == "C" else tys.TypeBound.Any


def mk_param(p):
    import hugr.tys as tys

    k = p["k"]
    if k == "type":
        return tys.TypeTypeParam(bound(p["b"]))
    if k == "nat":
        return tys.BoundedNatParam(p["max"])
    if k == "string":
        return tys.StringParam()
    if k == "exts":
        return tys.ExtensionsParam()
    if k == "list":
        return tys.ListParam(mk_param(p["p"]))
    if k == "tuple":
        return tys.TupleParam([mk_param(q) for q in p["ps"]])
    raise InvalidCase(k)


def mk_arg(a):
    import hugr.tys as tys

    k = a["k"]
    if k == "type":
        return tys.TypeTypeArg(mk_type(a["t"]))
    if k == "nat":
        return tys.BoundedNatArg(a["n"])
    if k == "str":
        return tys.StringArg(a["s"])
    if k == "seq":
        return tys.SequenceArg([mk_arg(e) for e in a["es"]])
    if k == "exts":
        return tys.ExtensionsArg(list(a["es"]))
    if k == "var":
        return tys.VariableArg(a["i"], mk_param(a["p"]))
    raise InvalidCase(k)


def mk_row(r):
    return [mk_type(t) for t in r]


def mk_typedef(d):
    """Generated type definition, attached to a (cached per description) extension."""
    import json

    import hugr.ext as ext
    from semver import Version

    key = json.dumps(d, sort_keys=True)
    if key in _EXT_CACHE:
        return _EXT_CACHE[key]
    e = ext.Extension(d["ext"], Version(0, 1, 0))
    b = d["bound"]
    bd = ext.ExplicitBound(bound(b["v"])) if b["b"] == "E" else ext.FromParamsBound(list(b["idx"]))
    td = e.add_type_def(ext.TypeDef(d["name"], d.get("desc", ""), [mk_param(p) for p in d["params"]], bd))
    _EXT_CACHE[key] = td
    return td


def mk_type(t):
    import hugr.tys as tys

    try:
        k = t["k"]
    except (TypeError, KeyError) as e:
        raise InvalidCase from e
    if k == "bool":
        return tys.Bool
    if k == "unit":
        return tys.Unit
    if k == "unitsum":
        return tys.UnitSum(t["n"])
    if k == "qubit":
        return tys.Qubit
    if k == "usize":
        return tys.USize()
    if k == "sum":
        return tys.Sum([mk_row(r) for r in t["rows"]])
    if k == "tuple":
        return tys.Tuple(*mk_row(t["ts"]))
    if k == "option":
        return tys.Option(*mk_row(t["ts"]))
    if k == "either":
        return tys.Either(_it(mk_row(t["l"])), _it(mk_row(t["r"])))
    if k == "fn":
        return tys.FunctionType(mk_row(t["i"]), mk_row(t["o"]), list(t.get("reqs", [])))
    if k == "var":
        return tys.Variable(t["i"], bound(t["b"]))
    if k == "rowvar":
        return tys.RowVariable(t["i"], bound(t["b"]))
    if k == "alias":
        return tys.Alias(t["name"], bound(t["b"]))
    if k == "opaque":
        return tys.Opaque(id=t["id"], bound=bound(t["b"]), args=[mk_arg(a) for a in t["args"]], extension=t["ext"])
    if k == "int":
        from hugr.std.int import int_t

        return int_t(t["w"])
    if k == "intvar":
        from hugr.std.int import _int_tv

        return _int_tv(t["i"])
    if k == "float":
        from hugr.std.float import FLOAT_T

        return FLOAT_T
    if k == "string":
        from hugr.std.prelude import STRING_T

        return STRING_T
    if k == "array":
        from hugr.std.collections.array import Array

        return Array(mk_type(t["t"]), t["n"])
    if k == "list":
        from hugr.std.collections.list import List

        return List(mk_type(t["t"]))
    if k == "sarray":
        from hugr.std.collections.static_array import StaticArray

        return StaticArray(mk_type(t["t"]))
    if k == "ext":
        return mk_typedef(t["def"]).instantiate([mk_arg(a) for a in t["args"]])
    raise InvalidCase(k)


def mk_fn_hugr(i, o, reqs=()):
    """A valid DFG-rooted HUGR with the given signature: Input -> one opaque op -> Output."""
    import hugr.ops as ops
    import hugr.tys as tys
    from hugr.hugr import Hugr

    h = Hugr(ops.DFG(mk_row(i), mk_row(o), list(reqs)))
    inp = h.add_node(ops.Input(mk_row(i)), h.root, num_outs=len(i))
    out = h.add_node(ops.Output(mk_row(o)), h.root)
    body = h.add_node(ops.Custom("body", tys.FunctionType(mk_row(i), mk_row(o)), extension="gen.ext"), h.root, num_outs=len(o), metadata={"k": [1, None], "name": "body"})
    for k in range(len(i)):
        h.add_link(inp.out(k), body.inp(k))
    for k in range(len(o)):
        h.add_link(body.out(k), out.inp(k))
    return h


def mk_value(v):
    import hugr.val as val

    try:
        k = v["k"]
    except (TypeError, KeyError) as e:
        raise InvalidCase from e
    vs = [mk_value(x) for x in v.get("vs", [])] if isinstance(v.get("vs", []), list) else []
    if k == "sum":
        return val.Sum(v["tag"], mk_type(v["typ"]), vs)
    if k == "unitsum":
        return val.UnitSum(v["tag"], v["n"])
    if k == "true":
        return val.TRUE
    if k == "false":
        return val.FALSE
    if k == "boolv":
        return val.bool_value(v["b"])
    if k == "unit":
        return val.Unit
    if k == "tuple":
        return val.Tuple(*vs)
    if k == "some":
        return val.Some(*vs)
    if k == "none":
        return val.None_(*mk_row(v["ts"]))
    if k == "left":
        return val.Left(_it(vs), _it(mk_row(v["r"])))
    if k == "right":
        return val.Right(_it(mk_row(v["l"])), _it(vs))
    if k == "int":
        from hugr.std.int import IntVal

        return IntVal(v["v"], v["w"])
    if k == "float":
        from hugr.std.float import FloatVal

        return FloatVal(v["v"])
    if k == "string":
        from hugr.std.prelude import StringVal

        return StringVal(v["s"])
    if k == "array":
        from hugr.std.collections.array import ArrayVal

        return ArrayVal(vs, mk_type(v["t"]))
    if k == "list":
        from hugr.std.collections.list import ListVal

        return ListVal(vs, mk_type(v["t"]))
    if k == "sarray":
        from hugr.std.collections.static_array import StaticArrayVal

        return StaticArrayVal(vs, mk_type(v["t"]), v["name"])
    if k == "ext":
        return val.Extension(v["name"], mk_type(v["t"]), v["payload"], list(v["exts"]))
    if k == "function":
        return val.Function(mk_fn_hugr(v["i"], v["o"], v.get("reqs", [])))
    raise InvalidCase(k)


def mk_poly(op):
    import hugr.tys as tys

    return tys.PolyFuncType([mk_param(p) for p in op["params"]], tys.FunctionType(mk_row(op["i"]), mk_row(op["o"]), list(op.get("reqs", []))))


def mk_op(op):
    """Complete op object for an op AST."""
    import hugr.ops as ops
    import hugr.tys as tys

    try:
        k = op["k"]
    except (TypeError, KeyError) as e:
        raise InvalidCase from e
    if k == "Module":
        return ops.Module()
    if k == "FuncDefn":
        return ops.FuncDefn(op["name"], mk_row(op["i"]), [mk_param(p) for p in op["params"]], mk_row(op["o"]))
    if k == "FuncDecl":
        return ops.FuncDecl(op["name"], mk_poly(op))
    if k == "AliasDecl":
        return ops.AliasDecl(op["name"], bound(op["b"]))
    if k == "AliasDefn":
        return ops.AliasDefn(op["name"], mk_type(op["t"]))
    if k == "Const":
        return ops.Const(mk_value(op["v"]))
    if k == "Input":
        return ops.Input(mk_row(op["ts"]))
    if k == "Output":
        return ops.Output(mk_row(op["ts"]))
    if k in ("Call", "LoadFunc"):
        cls = ops.Call if k == "Call" else ops.LoadFunc
        if not op["params"]:
            return cls(mk_poly(op))
        i, o, reqs = call_inst(op)
        return cls(mk_poly(op), tys.FunctionType(mk_row(i), mk_row(o), list(reqs)), [mk_arg(a) for a in op["targs"]])
    if k == "CallIndirect":
        return ops.CallIndirect(tys.FunctionType(mk_row(op["i"]), mk_row(op["o"]), list(op.get("reqs", []))))
    if k == "LoadConst":
        return ops.LoadConst(mk_type(op["t"]))
    if k == "DFG":
        return ops.DFG(mk_row(op["i"]), mk_row(op["o"]), list(op.get("reqs", [])))
    if k == "CFG":
        return ops.CFG(mk_row(op["i"]), mk_row(op["o"]))
    if k == "Case":
        return ops.Case(mk_row(op["i"]), mk_row(op["o"]))
    if k == "Conditional":
        return ops.Conditional(tys.Sum([mk_row(r) for r in op["rows"]]), mk_row(op["others"]), mk_row(op["outs"]))
    if k == "TailLoop":
        return ops.TailLoop(mk_row(op["ji"]), mk_row(op["rest"]), mk_row(op["jo"]), list(op.get("delta", [])))
    if k == "DataflowBlock":
        return ops.DataflowBlock(mk_row(op["i"]), tys.Sum([mk_row(r) for r in op["rows"]]), mk_row(op["others"]), list(op.get("delta", [])))
    if k == "ExitBlock":
        return ops.ExitBlock(mk_row(op["ts"]))
    if k == "Tag":
        return ops.Tag(op["tag"], tys.Sum([mk_row(r) for r in op["rows"]]))
    if k == "SomeTag":
        return ops.Some(*mk_row(op["ts"]))
    if k in ("LeftTag", "RightTag", "Continue", "Break"):
        cls = {"LeftTag": ops.Left, "RightTag": ops.Right, "Continue": ops.Continue, "Break": ops.Break}[k]
        return cls(tys.Either(mk_row(op["l"]), mk_row(op["r"])))
    if k == "Custom":
        return ops.Custom(
            op_name=op["name"],
            signature=tys.FunctionType(mk_row(op["i"]), mk_row(op["o"]), list(op.get("reqs", []))),
            description=op.get("desc", ""),
            extension=op["ext"],
            args=[mk_arg(a) for a in op.get("args", [])],
        )
    if k == "ExtOp":
        import hugr.ext as hext
        from semver import Version

        e = hext.Extension(op["ext"], Version(0, 1, 0))
        sig = tys.FunctionType(mk_row(op["i"]), mk_row(op["o"]), list(op.get("reqs", [])))
        targs = [mk_arg(a) for a in op.get("args", [])]
        if op["via"] == "mono":
            d = e.add_op_def(hext.OpDef(op["name"], hext.OpDefSig(sig), op.get("desc", "")))
            return d.instantiate(targs) if op.get("inst") else ops.ExtOp(d, None, targs)
        d = e.add_op_def(hext.OpDef(op["name"], hext.OpDefSig(None, binary=True), op.get("desc", "")))
        if op["via"] == "instantiate":
            return d.instantiate(targs, sig)
        return ops.ExtOp(d, sig, targs)
    if k == "MakeTuple":
        return ops.MakeTuple(mk_row(op["ts"]))
    if k == "UnpackTuple":
        return ops.UnpackTuple(mk_row(op["ts"]))
    if k == "Noop":
        return ops.Noop(mk_type(op["t"]))
    if k == "Not":
        from hugr.std.logic import Not

        return Not
    if k == "DivMod":
        from hugr.std.int import _DivModDef

        return _DivModDef(op["w"])
    raise InvalidCase(k)
