"""Foreign-writer conventions for HUGR documents (C05 part 6): rewrites of a
valid document that keep it schema-valid and semantically identical, and the
canonical form used to compare documents across such conventions."""

from __future__ import annotations

import copy

from vlib import refval
from vlib.ref import norm_enc

DEFAULTS = {
    "DataflowBlock": {"inputs": [], "other_outputs": [], "extension_delta": []},
    "Input": {"types": []},
    "Output": {"types": []},
    "Conditional": {"other_inputs": [], "outputs": [], "sum_rows": [], "extension_delta": []},
    "TailLoop": {"just_inputs": [], "just_outputs": [], "rest": [], "extension_delta": []},
    "Extension": {"description": "", "args": []},
}
# attributes the statement does not list (not names / types / params / args / payloads) and the Python data model has no slot for
NOT_COMPARED = {("Conditional", "extension_delta")}


def fill_reqs(x):
    """runtime_reqs default to [] in every function type."""
    if isinstance(x, list):
        return [fill_reqs(v) for v in x]
    if isinstance(x, dict):
        d = {k: fill_reqs(v) for k, v in x.items()}
        if d.get("t") == "G" and "runtime_reqs" not in d:
            d["runtime_reqs"] = []
        if "params" in d and "body" in d and isinstance(d["body"], dict) and "t" not in d["body"]:
            d["body"] = dict(d["body"], t="G")
            d["body"].setdefault("runtime_reqs", [])
        return d
    return x


def canon_doc(doc):
    """Canonical form: defaults filled, reader-normalised types, edges with explicit
    order offsets, metadata padded; unlisted attributes removed."""
    nodes = []
    for n in doc["nodes"]:
        d = dict(n)
        for k, v in DEFAULTS.get(d["op"], {}).items():
            d.setdefault(k, copy.deepcopy(v))
        if d["op"] in ("DFG", "CFG", "Case", "CallIndirect", "Extension") and "signature" not in d:
            d["signature"] = {"t": "G", "input": [], "output": [], "runtime_reqs": []}
        for op, k in NOT_COMPARED:
            if d["op"] == op:
                d.pop(k, None)
        d = norm_enc(fill_reqs(d))
        if d["op"] == "CFG":
            d["signature"]["runtime_reqs"] = []
        if d["op"] == "Const" and d["v"].get("v") == "Function":
            d["v"] = {"v": "Function", "hugr": canon_doc(d["v"]["hugr"])}
        nodes.append(d)
    sigs = [refval.jsig(fill_reqs(n)) for n in doc["nodes"]]
    edges = []
    for (s, so), (t, to) in doc["edges"]:
        if so is None:
            so = refval.port_count(sigs[s], "out") - 1
        if to is None:
            to = refval.port_count(sigs[t], "in") - 1
        edges.append((s, so, t, to))
    meta = list(doc.get("metadata") or [])
    meta = [(m or None) for m in meta] + [None] * (len(nodes) - len(meta))
    return {"nodes": nodes, "edges": sorted(edges), "metadata": meta[: len(nodes)]}


# ------------------------------------------------------------------ rewrites


def null_order_offsets(doc, k):
    sigs = [refval.jsig(n) for n in doc["nodes"]]
    d = copy.deepcopy(doc)
    n = 0
    for e in d["edges"]:
        (s, so), (t, to) = e
        if sigs[s]["other_out"] == "order" and so == refval.port_count(sigs[s], "out") - 1 and sigs[t]["other_in"] == "order" and to == refval.port_count(sigs[t], "in") - 1:
            e[0][1] = None
            e[1][1] = None
            n += 1
    return d, n


def unit_as_general(doc, k):
    cnt = [0]

    def rw(x):
        if isinstance(x, list):
            return [rw(v) for v in x]
        if isinstance(x, dict):
            if x.get("t") == "Sum" and x.get("s") == "Unit" or (x.get("s") == "Unit" and "size" in x and "t" not in x):
                cnt[0] += 1
                out = {"s": "General", "rows": [[] for _ in range(x["size"])]}
                if "t" in x:
                    out["t"] = "Sum"
                return out
            return {kk: rw(v) for kk, v in x.items()}
        return x

    d = copy.deepcopy(doc)
    d["nodes"] = rw(d["nodes"])
    return d, cnt[0]


def drop_defaults(doc, k):
    d = copy.deepcopy(doc)
    n = 0
    for node in d["nodes"]:
        for key, dv in DEFAULTS.get(node["op"], {}).items():
            if node.get(key) == dv and (k + n) % 2 == 0:
                del node[key]
                n += 1

    def strip(x):
        nonlocal n
        if isinstance(x, list):
            for v in x:
                strip(v)
        elif isinstance(x, dict):
            if x.get("t") == "G" and x.get("runtime_reqs") == []:
                del x["runtime_reqs"]
                n += 1
            for v in x.values():
                strip(v)

    strip(d["nodes"])
    return d, n


def metadata_holes(doc, k):
    d = copy.deepcopy(doc)
    meta = d.get("metadata")
    if meta is None:
        return d, 0
    n = 0
    while meta and not meta[-1]:
        meta.pop()
        n += 1
    if not meta and k % 2:
        d["metadata"] = None
        n += 1
    return d, n


def foreign_encoder(doc, k):
    d = copy.deepcopy(doc)
    d["encoder"] = ["hugr-rs v0.15.0", None, "other-tool"][k % 3]
    d = {kk: d[kk] for kk in reversed(list(d))}
    d["nodes"] = [{kk: n[kk] for kk in sorted(n, reverse=True)} for n in d["nodes"]]
    return d, 1


def extra_attributes(doc, k):
    """Attributes hugr-py never writes itself on these ops but has to keep."""
    d = copy.deepcopy(doc)
    n = 0
    for node in d["nodes"]:
        if node["op"] in ("TailLoop", "DataflowBlock") and not node.get("extension_delta"):
            node["extension_delta"] = ["foreign.ext"]
            n += 1
        if node["op"] == "DFG" and not node["signature"].get("runtime_reqs"):
            node["signature"]["runtime_reqs"] = ["foreign.ext"]
            n += 1
        if node["op"] == "Conditional":
            node["extension_delta"] = ["foreign.ext"]
        if node["op"] == "Extension" and not node.get("description"):
            node["description"] = "described by a foreign writer"
            n += 1
    return d, n


def hierarchy_order(doc, k):
    """Renumber nodes in breadth-first hierarchy order (a canonical order another writer may use)."""
    nodes = doc["nodes"]
    ch = {i: [] for i in range(len(nodes))}
    for i, n in enumerate(nodes):
        if i:
            ch[n["parent"]].append(i)
    order = []
    q = [0]
    while q:
        x = q.pop(0)
        order.append(x)
        q += ch[x]
    if order == list(range(len(nodes))) or len(order) != len(nodes):
        return doc, 0
    new = {old: i for i, old in enumerate(order)}
    d = copy.deepcopy(doc)
    d["nodes"] = [dict(nodes[old], parent=new[nodes[old]["parent"]]) for old in order]
    d["edges"] = [[[new[s], so], [new[t], to]] for (s, so), (t, to) in doc["edges"]]
    meta = list(doc.get("metadata") or [])
    meta += [None] * (len(nodes) - len(meta))
    d["metadata"] = [meta[old] for old in order]
    return d, 1


def parallel_edge(doc, k):
    """One edge written twice: two links between the same pair of ports (the second one must not replace
    the first)."""
    d = copy.deepcopy(doc)
    if not d["edges"]:
        return d, 0
    e = d["edges"][(k * 7 + 3) % len(d["edges"])]
    d["edges"].append(copy.deepcopy(e))
    # ... and one state-order edge twice as well, when there is one
    sigs = [refval.jsig(n) for n in doc["nodes"]]
    for (s, so), (t, to) in doc["edges"]:
        if so is not None and sigs[s]["other_out"] == "order" and so == refval.port_count(sigs[s], "out") - 1 and sigs[t]["other_in"] == "order" and to == refval.port_count(sigs[t], "in") - 1:
            d["edges"].append([[s, so], [t, to]])
            return d, 2
    return d, 1


REWRITES = [null_order_offsets, unit_as_general, drop_defaults, metadata_holes, foreign_encoder, extra_attributes, hierarchy_order, parallel_edge]
