"""Reference validator over the *serialized* HUGR document (DESIGN 2.3).

Re-implements, from specification/hugr.md and the Rust reference
(hugr-core/src/hugr/validate.rs, ops/validate.rs, ops/tag.rs, ops.rs,
hugr/serialize.rs), the rules `hugr validate` enforces.  Works on JSON only
and shares no code with hugr-py.

    validate(doc) -> list of (clause, message)       (empty list == valid)
"""

from __future__ import annotations

from vlib import refconst
from vlib.ref import norm_enc

DATAFLOW_PARENTS = {"DFG", "FuncDefn", "Case", "TailLoop", "DataflowBlock"}
SCOPED_DEFN = {"AliasDecl", "AliasDefn", "Const", "FuncDefn"}
DATAFLOW_CHILD = {"Input", "Output", "DFG", "CFG", "TailLoop", "Conditional", "Call", "CallIndirect", "LoadConstant", "LoadFunction", "Extension", "Tag"} | SCOPED_DEFN
ALLOWED_CHILDREN = {
    "Module": {"FuncDefn", "FuncDecl"} | SCOPED_DEFN,
    "Conditional": {"Case"},
    "CFG": {"DataflowBlock", "ExitBlock"} | SCOPED_DEFN,
}
for _p in DATAFLOW_PARENTS:
    ALLOWED_CHILDREN[_p] = DATAFLOW_CHILD


def G(sig):
    return {"t": "G", "input": sig["input"], "output": sig["output"], "runtime_reqs": sig.get("runtime_reqs", [])}


def sum_of(rows):
    return {"t": "Sum", "s": "General", "rows": rows}


def jsig(n):
    """Ports of a serialized node: value rows, static ports, other ports."""
    op = n["op"]
    r = {"ins": [], "outs": [], "static_in": None, "static_out": None, "other_in": None, "other_out": None, "n_cf_out": 0}

    def df(i, o):
        r.update(ins=list(i), outs=list(o), other_in="order", other_out="order")

    if op in ("Module", "AliasDecl", "AliasDefn", "Case"):
        pass
    elif op in ("FuncDefn", "FuncDecl"):
        r["static_out"] = ("fn", n["signature"])
    elif op == "Const":
        r["static_out"] = ("const", refconst.const_type(n["v"]))
    elif op == "Input":
        r.update(outs=list(n.get("types", [])), other_out="order")
    elif op == "Output":
        r.update(ins=list(n.get("types", [])), other_in="order")
    elif op == "Call":
        df(n["instantiation"]["input"], n["instantiation"]["output"])
        r["static_in"] = ("fn", n["func_sig"])
    elif op == "CallIndirect":
        s = n["signature"]
        df([G(s)] + list(s["input"]), s["output"])
    elif op == "LoadConstant":
        df([], [n["datatype"]])
        r["static_in"] = ("const", n["datatype"])
    elif op == "LoadFunction":
        df([], [G(n["instantiation"])])
        r["static_in"] = ("fn", n["func_sig"])
    elif op in ("DFG", "CFG", "Extension"):
        df(n["signature"]["input"], n["signature"]["output"])
    elif op == "Tag":
        df(n["variants"][n["tag"]] if 0 <= n["tag"] < len(n["variants"]) else [], [sum_of(n["variants"])])
    elif op == "Conditional":
        df([sum_of(n.get("sum_rows", []))] + list(n.get("other_inputs", [])), n.get("outputs", []))
    elif op == "TailLoop":
        rest = list(n.get("rest", []))
        df(list(n.get("just_inputs", [])) + rest, list(n.get("just_outputs", [])) + rest)
    elif op == "DataflowBlock":
        r.update(other_in="cf", other_out="cf", n_cf_out=len(n["sum_rows"]))
    elif op == "ExitBlock":
        r.update(other_in="cf")
    else:
        raise ValueError(f"unknown op {op}")
    return r


def inner_sig(n):
    """(input row, output row) of the child dataflow graph, or None."""
    op = n["op"]
    if op in ("DFG", "Case"):
        return n["signature"]["input"], n["signature"]["output"]
    if op == "FuncDefn":
        b = n["signature"]["body"]
        return b["input"], b["output"]
    if op == "TailLoop":
        ji, jo, rest = list(n.get("just_inputs", [])), list(n.get("just_outputs", [])), list(n.get("rest", []))
        return ji + rest, [sum_of([ji, jo])] + rest
    if op == "DataflowBlock":
        return list(n.get("inputs", [])), [sum_of(n["sum_rows"])] + list(n.get("other_outputs", []))
    return None


def port_count(s, direction):
    if direction == "in":
        return len(s["ins"]) + (1 if s["static_in"] else 0) + (1 if s["other_in"] else 0)
    if s["other_out"] == "cf":
        return s["n_cf_out"]
    return len(s["outs"]) + (1 if s["static_out"] else 0) + (1 if s["other_out"] else 0)


def port_kind(s, direction, off):
    """('value', ty) | ('const', ty) | ('fn', poly) | ('order',) | ('cf',) | None"""
    if direction == "in":
        nv = len(s["ins"])
        if off < nv:
            return ("value", s["ins"][off])
        if s["static_in"] and off == nv:
            return s["static_in"]
        if s["other_in"] and off == nv + (1 if s["static_in"] else 0):
            return (s["other_in"],)
        return None
    if s["other_out"] == "cf":
        return ("cf",) if off < s["n_cf_out"] else None
    nv = len(s["outs"])
    if off < nv:
        return ("value", s["outs"][off])
    if s["static_out"] and off == nv:
        return s["static_out"]
    if s["other_out"] and off == nv + (1 if s["static_out"] else 0):
        return (s["other_out"],)
    return None


def kind_eq(a, b) -> bool:
    if a is None or b is None or a[0] != b[0]:
        return False
    if len(a) == 1:
        return True
    return norm_enc(a[1]) == norm_enc(b[1])


def bound_of(t):
    return refconst.bound_of(t)


def rows_eq(a, b) -> bool:
    return norm_enc(list(a)) == norm_enc(list(b))


def type_vars_ok(t, decls) -> bool:
    """Every variable mentioned in t is declared (index in range) -- R-type-wf."""
    if isinstance(t, list):
        return all(type_vars_ok(x, decls) for x in t)
    if isinstance(t, dict):
        if t.get("t") in ("V", "R"):
            return 0 <= t["i"] < len(decls)
        if t.get("tya") == "Variable":
            return 0 <= t["idx"] < len(decls)
        return all(type_vars_ok(v, decls) for v in t.values())
    return True


_STD_TYPEDEFS: dict = {}


def std_typedef(ext, name):
    """Type definition (from specification/std_extensions) of a standard extension type, or None."""
    import json
    import os

    if not _STD_TYPEDEFS:
        root = os.path.join(os.environ.get("VERIF_REPO", "/repo"), "specification", "std_extensions")
        for dirpath, _, files in os.walk(root):
            for fn in files:
                if fn.endswith(".json"):
                    with open(os.path.join(dirpath, fn)) as f:
                        d = json.load(f)
                    for k, v in d["types"].items():
                        _STD_TYPEDEFS[(d["name"], k)] = v
        _STD_TYPEDEFS[("", "")] = None
    return _STD_TYPEDEFS.get((ext, name))


def subst(t, args):
    """Substitute encoded type args into an encoded type / row (for Call instantiation).
    As in the reference implementation, the bound of an extension type whose definition derives it
    from its parameters is recomputed after substitution (known for the standard extensions)."""
    if isinstance(t, dict) and t.get("t") == "Opaque":
        out = {k: subst(v, args) for k, v in t.items()}
        td = std_typedef(out.get("extension"), out.get("id"))
        if td and td["bound"].get("b") == "FromParams":
            bs = [bound_of(out["args"][i]["ty"]) for i in td["bound"]["indices"] if i < len(out["args"]) and out["args"][i].get("tya") == "Type"]
            out["bound"] = "A" if "A" in bs else "C"
        return out
    if isinstance(t, list):
        out = []
        for x in t:
            if isinstance(x, dict) and x.get("t") == "R":
                a = args[x["i"]]
                if a.get("tya") == "Sequence":
                    out += [e["ty"] for e in a["elems"]]
                elif a.get("tya") == "Variable":
                    out.append({"t": "R", "i": a["idx"], "b": x["b"]})
                else:
                    raise ValueError("row variable instantiated with a non-sequence")
            else:
                out.append(subst(x, args))
        return out
    if isinstance(t, dict):
        if t.get("t") == "V":
            a = args[t["i"]]
            if a.get("tya") == "Type":
                return a["ty"]
            if a.get("tya") == "Variable":
                return {"t": "V", "i": a["idx"], "b": t["b"]}
            raise ValueError("type variable instantiated with a non-type")
        if t.get("tya") == "Variable":
            return args[t["idx"]]
        if t.get("tya") == "Type":
            inner = subst([t["ty"]], args)
            if len(inner) == 1:
                return {"tya": "Type", "ty": inner[0]}
            return {"tya": "Sequence", "elems": [{"tya": "Type", "ty": x} for x in inner]}
        return {k: subst(v, args) for k, v in t.items()}
    return t


def validate(doc) -> list[tuple[str, str]]:
    """Clauses violated by the document.  A document the validator cannot even read (a missing
    mandatory field, a value of the wrong JSON type) is reported as malformed, not as a harness error."""
    try:
        return _validate(doc)
    except (KeyError, IndexError, TypeError, AttributeError) as e:
        import traceback

        fr = traceback.extract_tb(e.__traceback__)[-1]
        return [("R-malformed", f"document not readable by the reference validator: {type(e).__name__}: {e} (at {fr.name})")]


def _validate(doc) -> list[tuple[str, str]]:
    errs: list[tuple[str, str]] = []
    nodes = doc.get("nodes") or []
    edges = doc.get("edges") or []
    if not nodes:
        return [("R-root", "empty document")]
    n_nodes = len(nodes)
    if nodes[0]["parent"] != 0:
        errs.append(("R-root", "node 0 is not its own parent"))
    children: dict[int, list[int]] = {i: [] for i in range(n_nodes)}
    for i, n in enumerate(nodes):
        if i == 0:
            continue
        p = n["parent"]
        if not (0 <= p < n_nodes) or p == i:
            return errs + [("R-hierarchy", f"node {i} has parent {p}")]
        children[p].append(i)
    # hierarchy must be a tree rooted at 0
    seen = set()
    stack = [0]
    while stack:
        x = stack.pop()
        if x in seen:
            continue
        seen.add(x)
        stack += children[x]
    if len(seen) != n_nodes:
        return errs + [("R-hierarchy", "nodes not reachable from the root")]
    try:
        sigs = [jsig(n) for n in nodes]
    except (KeyError, ValueError, TypeError) as e:
        return errs + [("R-op", f"malformed op: {e}")]

    def opn(i):
        return nodes[i]["op"]

    # ---- ports and links
    out_links: dict[tuple[int, int], list[tuple[int, int]]] = {}
    in_links: dict[tuple[int, int], list[tuple[int, int]]] = {}
    for e in edges:
        (s, so), (d, do) = e
        if not (0 <= s < n_nodes and 0 <= d < n_nodes):
            errs.append(("R-edge-node", f"edge {e} names a missing node"))
            continue
        if so is None:
            so = port_count(sigs[s], "out") - 1 if sigs[s]["other_out"] == "order" else None
        if do is None:
            do = port_count(sigs[d], "in") - 1 if sigs[d]["other_in"] in ("order",) else None
        if so is None or do is None:
            errs.append(("R-port-range", f"edge {e}: null offset on a node without an other port"))
            continue
        if so >= port_count(sigs[s], "out") or so < 0:
            errs.append(("R-port-range", f"edge {e}: out offset {so} >= {port_count(sigs[s], 'out')} ports of {opn(s)}"))
            continue
        if do >= port_count(sigs[d], "in") or do < 0:
            errs.append(("R-port-range", f"edge {e}: in offset {do} >= {port_count(sigs[d], 'in')} ports of {opn(d)}"))
            continue
        out_links.setdefault((s, so), []).append((d, do))
        in_links.setdefault((d, do), []).append((s, so))
    if errs:
        return errs

    def ancestors(i):
        while i != 0:
            i = nodes[i]["parent"]
            yield i

    # ---- per node checks
    for i, n in enumerate(nodes):
        op = n["op"]
        s = sigs[i]
        if i != 0:
            p = n["parent"]
            allowed = ALLOWED_CHILDREN.get(opn(p), set())
            if op not in allowed:
                errs.append(("R-parent-child", f"{op} (node {i}) is not allowed under {opn(p)} (node {p})"))
        else:
            if any(k[0] == 0 for k in out_links) or any(k[0] == 0 for k in in_links):
                errs.append(("R-root", "root node has edges"))
        ch = children[i]
        if ch:
            if op not in ALLOWED_CHILDREN:
                errs.append(("R-parent-child", f"non-container {op} (node {i}) has children"))
                continue
            if op in DATAFLOW_PARENTS:
                if opn(ch[0]) != "Input" or len(ch) < 2 or opn(ch[1]) != "Output":
                    errs.append(("R-first-second-child", f"{op} (node {i}): first two children are {[opn(c) for c in ch[:2]]}"))
                else:
                    ii, oo = inner_sig(n)
                    if not rows_eq(nodes[ch[0]].get("types", []), ii):
                        errs.append(("R-io-rows", f"{op} (node {i}): Input row {nodes[ch[0]].get('types')} != {ii}"))
                    if not rows_eq(nodes[ch[1]].get("types", []), oo):
                        errs.append(("R-io-rows", f"{op} (node {i}): Output row {nodes[ch[1]].get('types')} != {oo}"))
                    for c in ch[2:]:
                        if opn(c) in ("Input", "Output"):
                            errs.append(("R-no-internal-io", f"{opn(c)} (node {c}) is not among the first two children of node {i}"))
                errs += dag_check(i, ch, out_links, nodes)
            elif op == "Conditional":
                rows = n.get("sum_rows", [])
                if len(rows) != len(ch):
                    errs.append(("R-io-rows", f"Conditional (node {i}) has {len(ch)} cases for {len(rows)} variants"))
                else:
                    for k, c in enumerate(ch):
                        if opn(c) != "Case":
                            continue
                        cs = nodes[c]["signature"]
                        if not rows_eq(cs["input"], list(rows[k]) + list(n.get("other_inputs", []))) or not rows_eq(cs["output"], n.get("outputs", [])):
                            errs.append(("R-io-rows", f"Case {k} (node {c}) signature {cs['input']} -> {cs['output']} does not match Conditional node {i}"))
            elif op == "CFG":
                if opn(ch[0]) != "DataflowBlock" or len(ch) < 2 or opn(ch[1]) != "ExitBlock":
                    errs.append(("R-first-second-child", f"CFG (node {i}): first two children are {[opn(c) for c in ch[:2]]}"))
                else:
                    if not rows_eq(nodes[ch[0]].get("inputs", []), n["signature"]["input"]):
                        errs.append(("R-io-rows", f"CFG (node {i}): entry block inputs != CFG inputs"))
                    if not rows_eq(nodes[ch[1]]["cfg_outputs"], n["signature"]["output"]):
                        errs.append(("R-io-rows", f"CFG (node {i}): exit row != CFG outputs"))
                    for c in ch[2:]:
                        if opn(c) == "ExitBlock":
                            errs.append(("R-no-internal-exit", f"ExitBlock (node {c}) is not the second child"))
                # edges between blocks
                for c in ch:
                    if opn(c) != "DataflowBlock":
                        continue
                    for k in range(len(nodes[c]["sum_rows"])):
                        for d, _ in out_links.get((c, k), []):
                            if nodes[d]["parent"] != i:
                                continue
                            src_row = list(nodes[c]["sum_rows"][k]) + list(nodes[c].get("other_outputs", []))
                            tgt = nodes[d].get("inputs", []) if opn(d) == "DataflowBlock" else nodes[d].get("cfg_outputs", []) if opn(d) == "ExitBlock" else None
                            if tgt is None or not rows_eq(src_row, tgt):
                                errs.append(("R-cfg-edge", f"successor {k} of block {c} delivers {src_row} to node {d} expecting {tgt}"))
        else:
            if op in DATAFLOW_PARENTS or op in ("Conditional", "CFG"):
                errs.append(("R-requires-children", f"{op} (node {i}) has no children"))
        if op == "Const":
            for clause, msg in refconst.check_const(n["v"]):
                errs.append(("R-const:" + clause, f"node {i}: {msg}"))
            if n["v"].get("v") == "Function":
                sub = validate(n["v"]["hugr"])
                for clause, msg in sub:
                    errs.append(("R-const:function-body:" + clause, f"node {i}: {msg}"))
        if op in ("Call", "LoadFunction"):
            fs = n["func_sig"]
            try:
                if len(fs["params"]) != len(n["type_args"]):
                    raise ValueError("wrong number of type arguments")
                want = {"input": subst(fs["body"]["input"], n["type_args"]), "output": subst(fs["body"]["output"], n["type_args"])}
                if not rows_eq(want["input"], n["instantiation"]["input"]) or not rows_eq(want["output"], n["instantiation"]["output"]):
                    errs.append(("R-call", f"node {i}: instantiation {n['instantiation']['input']} -> {n['instantiation']['output']} != substituted signature {want['input']} -> {want['output']}"))
            except (ValueError, IndexError, KeyError, TypeError) as e:
                errs.append(("R-call", f"node {i}: {e}"))
        if op == "Tag" and not (0 <= n["tag"] < len(n["variants"])):
            errs.append(("R-tag", f"node {i}: tag {n['tag']} out of range"))

    if errs:
        return errs

    # ---- type variables (R-type-wf)
    def walk(i, decls):
        n = nodes[i]
        s = sigs[i]
        for t in s["ins"] + s["outs"]:
            if not type_vars_ok(t, decls):
                errs.append(("R-type-wf", f"node {i} ({n['op']}) mentions an undeclared type variable"))
                break
        if s["static_in"] and s["static_in"][0] == "const" and not type_vars_ok(s["static_in"][1], []):
            errs.append(("R-type-wf", f"node {i}: static edge type is not closed"))
        if s["static_out"] and s["static_out"][0] == "const" and not type_vars_ok(s["static_out"][1], []):
            errs.append(("R-type-wf", f"node {i}: constant type is not closed"))
        for which in ("static_in", "static_out"):
            if s[which] and s[which][0] == "fn":
                pf = s[which][1]
                if not type_vars_ok(pf["body"], pf["params"]):
                    errs.append(("R-type-wf", f"node {i}: function type mentions an undeclared variable"))
        if n["op"] == "FuncDefn":
            decls = n["signature"]["params"]
        for c in children[i]:
            walk(c, decls)

    walk(0, [])

    # ---- ports: connectivity, kinds, locality
    dom_cache: dict[int, dict[int, set[int]]] = {}
    for i, n in enumerate(nodes):
        if i == 0:
            continue
        s = sigs[i]
        for off in range(port_count(s, "in")):
            kd = port_kind(s, "in", off)
            links = in_links.get((i, off), [])
            if kd[0] in ("value", "const", "fn") and n["op"] != "Case":
                if not links:
                    errs.append(("R-must-connect", f"input {off} of node {i} ({n['op']}) is unconnected"))
                elif len(links) > 1:
                    errs.append(("R-must-connect", f"input {off} of node {i} ({n['op']}) has {len(links)} links"))
        for off in range(port_count(s, "out")):
            kd = port_kind(s, "out", off)
            links = out_links.get((i, off), [])
            linear = (kd[0] == "value" and bound_of(kd[1]) == "A") or kd[0] == "cf"
            if linear and len(links) != 1:
                errs.append(("R-must-connect", f"linear/control output {off} of node {i} ({n['op']}) has {len(links)} links"))
            for d, do in links:
                kd2 = port_kind(sigs[d], "in", do)
                if not kind_eq(kd, kd2):
                    errs.append(("R-kind-eq", f"edge ({i},{off})->({d},{do}): {kd} vs {kd2}"))
                    continue
                errs += locality(i, off, kd, d, do, nodes, children, out_links, sigs, dom_cache)
    return errs


def dag_check(parent, ch, out_links, nodes):
    chs = set(ch)
    succ = {c: set() for c in ch}
    for (s, _), tgts in out_links.items():
        if s in chs:
            for d, _ in tgts:
                if d in chs:
                    succ[s].add(d)
    indeg = {c: 0 for c in ch}
    for s in succ:
        for d in succ[s]:
            indeg[d] += 1
    q = [c for c in ch if indeg[c] == 0]
    seen = 0
    while q:
        x = q.pop()
        seen += 1
        for d in succ[x]:
            indeg[d] -= 1
            if indeg[d] == 0:
                q.append(d)
    return [] if seen == len(ch) else [("R-dag", f"children of node {parent} do not form a DAG")]


def dominators(cfg, children, out_links, nodes):
    """dom[b] = set of blocks dominating b (incl. b) in the CFG region `cfg`."""
    blocks = [c for c in children[cfg] if nodes[c]["op"] in ("DataflowBlock", "ExitBlock")]
    entry = blocks[0]
    succ = {b: set() for b in blocks}
    for (s, _), tgts in out_links.items():
        if s in succ:
            for d, _ in tgts:
                if d in succ:
                    succ[s].add(d)
    pred = {b: set() for b in blocks}
    for s in succ:
        for d in succ[s]:
            pred[d].add(s)
    # reachable set
    reach = set()
    st = [entry]
    while st:
        x = st.pop()
        if x in reach:
            continue
        reach.add(x)
        st += list(succ[x])
    dom = {b: (set(reach) if b != entry else {entry}) for b in reach}
    changed = True
    while changed:
        changed = False
        for b in reach:
            if b == entry:
                continue
            ps = [dom[p] for p in pred[b] if p in reach]
            new = set.intersection(*ps) | {b} if ps else {b}
            if new != dom[b]:
                dom[b] = new
                changed = True
    return dom


def locality(src, so, kd, dst, do, nodes, children, out_links, sigs, dom_cache):
    sp = nodes[src]["parent"]
    dp = nodes[dst]["parent"]
    if sp == dp:
        return []
    if kd[0] in ("order", "cf"):
        return [("R-locality", f"{kd[0]} edge ({src},{so})->({dst},{do}) is not local")]
    is_static = kd[0] in ("const", "fn")
    if not is_static and bound_of(kd[1]) != "C":
        return [("R-locality", f"non-local edge ({src},{so})->({dst},{do}) carries a non-copyable type")]
    entered_func = None
    spp = nodes[sp]["parent"] if sp != 0 else None
    anc = dp
    chain = []
    while True:
        chain.append(anc)
        if anc == 0:
            break
        anc = nodes[anc]["parent"]
    for a, ap in zip(chain, chain[1:]):
        if not is_static and nodes[a]["op"] == "FuncDefn" and entered_func is None:
            entered_func = a
        if ap == sp:
            if entered_func is not None:
                return [("R-locality", f"value edge ({src},{so})->({dst},{do}) enters function node {entered_func}")]
            if not is_static:
                sop = port_count(sigs[src], "out") - 1
                if sigs[src]["other_out"] != "order" or not any(d == a for d, _ in out_links.get((src, sop), [])):
                    return [("R-locality", f"Ext edge ({src},{so})->({dst},{do}) has no order edge from node {src} to ancestor {a}")]
            return []
        if spp is not None and ap == spp and not is_static and sp != 0:
            if nodes[ap]["op"] != "CFG":
                return [("R-locality", f"edge ({src},{so})->({dst},{do}): common ancestor {ap} is not a CFG")]
            if entered_func is not None:
                return [("R-locality", f"value edge ({src},{so})->({dst},{do}) enters function node {entered_func}")]
            if ap not in dom_cache:
                dom_cache[ap] = dominators(ap, children, out_links, nodes)
            dom = dom_cache[ap]
            if a not in dom or sp not in dom[a]:
                return [("R-locality", f"Dom edge ({src},{so})->({dst},{do}): block {sp} does not dominate block {a}")]
            return []
    return [("R-locality", f"edge ({src},{so})->({dst},{do}): source and target are unrelated")]
