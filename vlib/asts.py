"""Case language: Hypothesis strategies producing plain-JSON ASTs of types,
type parameters, type arguments and values (DESIGN section 2.1).  Nothing in
this module imports hugr."""

from __future__ import annotations

import functools
import json

from hypothesis import strategies as st


def _memo(f):
    """Cache strategy construction: building the recursive strategies anew for
    every draw dominated run time."""
    cache: dict = {}

    @functools.wraps(f)
    def g(*a, **kw):
        key = json.dumps([a, sorted(kw.items())], sort_keys=True, default=repr)
        if key not in cache:
            cache[key] = f(*a, **kw)
        return cache[key]

    return g

BOUNDS = ["C", "A"]


def weighted(*pairs):
    """one_of with explicit weights (st.one_of flattens nested alternatives, which
    starves composite branches)."""
    total = sum(w for w, _ in pairs)

    def sel(n):
        for w, s in pairs:
            if n < w:
                return s
            n -= w
        raise AssertionError

    return st.integers(0, total - 1).flatmap(sel)

NAMES = st.sampled_from(["a", "foo", "My.Type", "x_1", "", "ü∀", "T", "q", " a", "b "])
EXT_NAMES = st.sampled_from(["my.ext", "aaa", "zzz", "ext.b"])
REQS = st.lists(EXT_NAMES, max_size=2, unique=True)

# ------------------------------------------------------------------ params


@_memo
def params(depth: int = 2):
    base = st.one_of(
        st.sampled_from(BOUNDS).map(lambda b: {"k": "type", "b": b}),
        st.sampled_from([None, None, 1, 3, 7, 7, 9]).map(lambda m: {"k": "nat", "max": m}),
        st.just({"k": "string"}),
        st.just({"k": "exts"}),
    )
    if depth <= 0:
        return base
    sub = params(depth - 1)
    return st.one_of(
        base,
        base,
        sub.map(lambda p: {"k": "list", "p": p}),
        st.lists(sub, max_size=3).map(lambda ps: {"k": "tuple", "ps": ps}),
    )


# ------------------------------------------------------------------ types


@_memo
def _leaf_types(copy_only: bool, tvars: list | None):
    leaves = [
        st.just({"k": "bool"}),
        st.just({"k": "unit"}),
        st.integers(0, 4).map(lambda n: {"k": "unitsum", "n": n}),
        st.just({"k": "usize"}),
        st.integers(0, 6).map(lambda w: {"k": "int", "w": w}),
        st.just({"k": "float"}),
        st.just({"k": "string"}),
        st.tuples(NAMES, st.just("C") if copy_only else st.sampled_from(BOUNDS)).map(lambda t: {"k": "alias", "name": t[0], "b": t[1]}),
    ]
    lin = None
    if not copy_only:
        lin = st.one_of(st.just({"k": "qubit"}), NAMES.map(lambda n: {"k": "alias", "name": n, "b": "A"}))
    if tvars:
        cands = [(i, p) for i, p in enumerate(tvars) if p["k"] == "type" and (not copy_only or p["b"] == "C")]
        if cands:
            leaves.append(st.sampled_from(cands).map(lambda ip: {"k": "var", "i": ip[0], "b": ip[1]["b"]}))
        nats = [(i, p) for i, p in enumerate(tvars) if p["k"] == "nat" and p["max"] == 7]
        if nats:
            leaves.append(st.sampled_from(nats).map(lambda ip: {"k": "intvar", "i": ip[0]}))
    if lin is not None:
        return weighted((5, st.one_of(*leaves)), (1, lin))
    return st.one_of(*leaves)


def rows(elem, tvars=None, copy_only=False, max_size=3):
    """A row of types; may contain row variables when such are in scope."""
    base = st.lists(elem, max_size=max_size)
    if tvars:
        cands = [(i, p) for i, p in enumerate(tvars) if p["k"] == "list" and p["p"]["k"] == "type" and (not copy_only or p["p"]["b"] == "C")]
        if cands:
            rv = st.sampled_from(cands).map(lambda ip: {"k": "rowvar", "i": ip[0], "b": ip[1]["p"]["b"]})
            return st.lists(st.integers(0, 3).flatmap(lambda n: rv if n == 0 else elem), max_size=max_size)
    return base


@_memo
def types(depth: int = 3, copy_only: bool = False, tvars: list | None = None):
    """Type ASTs.  copy_only: only types whose bound is Copyable.
    tvars: parameter ASTs in scope (for type / row / nat variables)."""
    leaf = _leaf_types(copy_only, tvars)
    if depth <= 0:
        return leaf
    sub = types(depth - 1, copy_only, tvars)
    anysub = types(depth - 1, False, tvars)  # inside function types anything goes
    csub = types(depth - 1, True, tvars)
    row = rows(sub, tvars, copy_only)
    anyrow = rows(anysub, tvars, False)
    opaque_bound = st.just("C") if copy_only else st.sampled_from(BOUNDS)
    return weighted(
        (3, leaf),
        (8, _composite_types(depth, copy_only, tvars, leaf, sub, anysub, csub, row, anyrow, opaque_bound)),
    )


def _composite_types(depth, copy_only, tvars, leaf, sub, anysub, csub, row, anyrow, opaque_bound):
    return st.one_of(
        st.lists(row, max_size=3).map(lambda rs: {"k": "sum", "rows": rs}),
        row.map(lambda ts: {"k": "tuple", "ts": ts}),
        row.map(lambda ts: {"k": "option", "ts": ts}),
        st.tuples(row, row).map(lambda lr: {"k": "either", "l": lr[0], "r": lr[1]}),
        st.tuples(anyrow, anyrow, REQS).map(lambda t: {"k": "fn", "i": t[0], "o": t[1], "reqs": t[2]}),
        st.tuples(EXT_NAMES, NAMES, st.lists(args(depth - 1, tvars), max_size=2), opaque_bound).map(
            lambda t: {"k": "opaque", "ext": t[0], "id": t[1], "args": t[2], "b": t[3]}
        ),
        st.tuples(st.integers(0, 5), sub).map(lambda t: {"k": "array", "n": t[0], "t": t[1]}),
        sub.map(lambda t: {"k": "list", "t": t}),
        csub.map(lambda t: {"k": "sarray", "t": t}),
    )


@_memo
def args(depth: int = 2, tvars: list | None = None):
    base = st.one_of(
        st.integers(0, 2**40).map(lambda n: {"k": "nat", "n": n}),
        st.integers(0, 7).map(lambda n: {"k": "nat", "n": n}),
        st.text(max_size=4).map(lambda s: {"k": "str", "s": s}),
        st.lists(EXT_NAMES, max_size=2).map(lambda es: {"k": "exts", "es": es}),
    )
    if tvars:
        base = st.one_of(base, st.sampled_from(list(enumerate(tvars))).map(lambda ip: {"k": "var", "i": ip[0], "p": ip[1]}))
    if depth <= 0:
        return st.one_of(base, _leaf_types(False, tvars).map(lambda t: {"k": "type", "t": t}))
    return st.one_of(
        base,
        st.deferred(lambda: types(depth - 1, False, tvars)).map(lambda t: {"k": "type", "t": t}),
        st.lists(st.deferred(lambda: args(depth - 1, tvars)), max_size=3).map(lambda es: {"k": "seq", "es": es}),
    )


@_memo
def arg_for_param(p, depth=2, tvars=None):
    """A type argument fitting parameter AST p."""
    k = p["k"]
    if k == "type":
        return types(depth, copy_only=(p["b"] == "C"), tvars=tvars).map(lambda t: {"k": "type", "t": t})
    if k == "nat":
        hi = p["max"] - 1 if p["max"] is not None else 2**20
        if hi < 0:
            return st.just({"k": "nat", "n": 0})  # no inhabitant; callers avoid max=0
        return st.integers(0, hi).map(lambda n: {"k": "nat", "n": n})
    if k == "string":
        return st.text(max_size=4).map(lambda s: {"k": "str", "s": s})
    if k == "exts":
        return st.lists(EXT_NAMES, max_size=2).map(lambda es: {"k": "exts", "es": es})
    if k == "list":
        return st.lists(arg_for_param(p["p"], depth - 1, tvars), max_size=3).map(lambda es: {"k": "seq", "es": es})
    if k == "tuple":
        return st.tuples(*[arg_for_param(q, depth - 1, tvars) for q in p["ps"]]).map(lambda es: {"k": "seq", "es": list(es)})
    raise ValueError(k)


# ------------------------------------------------------------------ values


def rows_of(t):
    """Variant rows of a sum-like type AST, else None."""
    k = t["k"]
    if k == "bool":
        return [[], []]
    if k == "unit":
        return [[]]
    if k == "unitsum":
        return [[] for _ in range(t["n"])]
    if k == "sum":
        return t["rows"]
    if k == "tuple":
        return [t["ts"]]
    if k == "option":
        return [[], t["ts"]]
    if k == "either":
        return [t["l"], t["r"]]
    return None


def has_value(t) -> bool:
    k = t["k"]
    rs = rows_of(t)
    if rs is not None:
        return any(all(has_value(x) for x in r) for r in rs)
    if k in ("int", "float", "string", "fn", "opaque"):
        return k != "fn" or all(x["k"] != "rowvar" for x in t["i"] + t["o"])
    if k == "array":
        return t["n"] == 0 or has_value(t["t"])
    if k in ("list", "sarray"):
        return True  # empty collection
    return False


def value_of(t, depth: int = 3):
    """Strategy for value ASTs of type AST t (t must satisfy has_value)."""
    k = t["k"]
    rs = rows_of(t)
    if rs is not None:
        tags = [i for i, r in enumerate(rs) if all(has_value(x) for x in r)]

        @st.composite
        def sumv(draw):
            tag = draw(st.sampled_from(tags))
            vs = [draw(value_of(x, depth - 1)) for x in rs[tag]]
            forms = ["general"]
            if all(len(r) == 0 for r in rs):
                forms.append("unitsum")
                if len(rs) == 2:
                    forms += ["tf", "boolv"]
                if len(rs) == 1:
                    forms.append("unit")
            if len(rs) == 1:
                forms.append("tuple")
            if len(rs) == 2:
                forms.append("either")
                if not rs[0]:
                    forms.append("option")
            f = draw(st.sampled_from(forms))
            if f == "general":
                return {"k": "sum", "tag": tag, "typ": t, "vs": vs}
            if f == "unitsum":
                return {"k": "unitsum", "tag": tag, "n": len(rs)}
            if f == "tf":
                return {"k": "true"} if tag else {"k": "false"}
            if f == "boolv":
                return {"k": "boolv", "b": bool(tag)}
            if f == "unit":
                return {"k": "unit"}
            if f == "tuple":
                return {"k": "tuple", "vs": vs}
            if f == "option":
                return {"k": "some", "vs": vs} if tag else {"k": "none", "ts": rs[1]}
            if f == "either":
                return {"k": "left", "vs": vs, "r": rs[1]} if tag == 0 else {"k": "right", "l": rs[0], "vs": vs}
            raise AssertionError(f)

        return sumv()
    if k == "int":
        w = t["w"]
        return st.integers(0, 2 ** (2**w) - 1).map(lambda v: {"k": "int", "v": v, "w": w})
    if k == "float":
        return st.floats(allow_nan=False, allow_infinity=False, width=32).map(lambda v: {"k": "float", "v": v})
    if k == "string":
        return st.text(max_size=5).map(lambda s: {"k": "string", "s": s})
    if k == "fn":
        return st.just({"k": "function", "i": t["i"], "o": t["o"], "reqs": list(t.get("reqs", []))})
    if k == "opaque":
        return st.tuples(
            st.sampled_from(["ConstX", "c", ""]),
            st.recursive(st.one_of(st.none(), st.booleans(), st.integers(-5, 5), st.text(max_size=3)), lambda c: st.one_of(st.lists(c, max_size=2), st.dictionaries(st.text(max_size=2), c, max_size=2)), max_leaves=4),
            st.lists(EXT_NAMES, max_size=2),
        ).map(lambda x: {"k": "ext", "name": x[0], "t": t, "payload": x[1], "exts": x[2]})
    if k in ("array", "list", "sarray"):
        et = t["t"]
        n = t["n"] if k == "array" else None
        if n is not None:
            elems = st.lists(value_of(et, depth - 1), min_size=n, max_size=n) if n else st.just([])
        elif not has_value(et) or depth <= 0:
            elems = st.just([])
        else:
            elems = st.lists(value_of(et, depth - 1), max_size=3)
        if k == "array":
            return elems.map(lambda vs: {"k": "array", "vs": vs, "t": et})
        if k == "list":
            return elems.map(lambda vs: {"k": "list", "vs": vs, "t": et})
        return st.tuples(elems, st.sampled_from(["arr", "", "my array ü"])).map(lambda x: {"k": "sarray", "vs": x[0], "t": et, "name": x[1]})
    raise ValueError(f"no value for {k}")


@_memo
def values(depth: int = 3):
    """(value AST) strategy over all value-bearing closed types."""
    return types(depth, copy_only=False).map(lambda t: t if has_value(t) else {"k": "option", "ts": [t]}).flatmap(lambda t: value_of(t, depth))


def depth_of(x) -> int:
    if isinstance(x, dict):
        return 1 + max([depth_of(v) for v in x.values()] + [0]) if "k" in x else max([depth_of(v) for v in x.values()] + [0])
    if isinstance(x, list):
        return max([depth_of(v) for v in x] + [0])
    return 0


# ------------------------------------------------------------------ ops

DESCS = st.sampled_from(["", "", "a description", "ünï <b> & 'q'", " padded\n"])
OP_KINDS = [
    "Module", "FuncDefn", "FuncDecl", "AliasDecl", "AliasDefn", "Const", "Input", "Output", "Call", "LoadFunc",
    "CallIndirect", "LoadConst", "DFG", "CFG", "Case", "Conditional", "TailLoop", "DataflowBlock", "ExitBlock",
    "Tag", "SomeTag", "LeftTag", "RightTag", "Continue", "Break", "Custom", "MakeTuple", "UnpackTuple", "Noop",
    "Not", "DivMod",
]


@st.composite
def poly_sig(draw, depth=2, want_poly=None):
    """(params, ins, outs) with variables of params allowed in the body."""
    if want_poly is None:
        want_poly = draw(st.booleans())
    rowp = st.sampled_from(BOUNDS).map(lambda b: {"k": "list", "p": {"k": "type", "b": b}})
    ps = draw(st.lists(st.one_of(params(1), rowp, st.sampled_from(BOUNDS).map(lambda b: {"k": "type", "b": b})), min_size=1, max_size=3)) if want_poly else []
    t = types(depth, tvars=ps or None)
    r = rows(t, ps or None)
    return ps, draw(r), draw(r)


@st.composite
def op_asts(draw, depth=2, kinds=None):
    k = draw(st.sampled_from(kinds or OP_KINDS))
    T = types(depth)
    row = rows(T)
    if k == "Module":
        return {"k": k}
    if k in ("FuncDefn", "FuncDecl"):
        ps, i, o = draw(poly_sig(depth))
        op = {"k": k, "name": draw(NAMES), "params": ps, "i": i, "o": o}
        if k == "FuncDecl":
            op["reqs"] = draw(REQS)
        return op
    if k == "AliasDecl":
        return {"k": k, "name": draw(NAMES), "b": draw(st.sampled_from(BOUNDS))}
    if k == "AliasDefn":
        return {"k": k, "name": draw(NAMES), "t": draw(T)}
    if k == "Const":
        return {"k": k, "v": draw(values(depth))}
    if k in ("Input", "Output", "ExitBlock", "MakeTuple", "UnpackTuple"):
        return {"k": k, "ts": draw(row)}
    if k == "SomeTag":
        return {"k": k, "ts": draw(row)}
    if k in ("Call", "LoadFunc"):
        ps, i, o = draw(poly_sig(depth))
        targs = [draw(arg_for_param(p, depth - 1)) for p in ps]
        return {"k": k, "params": ps, "i": i, "o": o, "reqs": draw(REQS), "targs": targs}
    if k in ("CallIndirect", "DFG"):
        return {"k": k, "i": draw(row), "o": draw(row), "reqs": draw(REQS)}
    if k in ("CFG", "Case"):
        return {"k": k, "i": draw(row), "o": draw(row)}
    if k in ("LoadConst", "Noop"):
        return {"k": k, "t": draw(T)}
    if k == "Conditional":
        return {"k": k, "rows": draw(st.lists(row, max_size=3)), "others": draw(row), "outs": draw(row)}
    if k == "TailLoop":
        return {"k": k, "ji": draw(row), "jo": draw(row), "rest": draw(row), "delta": draw(REQS)}
    if k == "DataflowBlock":
        return {"k": k, "i": draw(row), "rows": draw(st.lists(row, max_size=3)), "others": draw(row), "delta": draw(REQS)}
    if k == "Tag":
        rs = draw(st.lists(row, min_size=1, max_size=3))
        return {"k": k, "tag": draw(st.integers(0, len(rs) - 1)), "rows": rs}
    if k in ("LeftTag", "RightTag", "Continue", "Break"):
        return {"k": k, "l": draw(row), "r": draw(row)}
    if k == "Custom":
        return {"k": k, "ext": draw(EXT_NAMES), "name": draw(NAMES), "i": draw(row), "o": draw(row), "reqs": draw(REQS), "desc": draw(DESCS), "args": draw(st.lists(args(depth - 1), max_size=2))}
    if k == "Not":
        return {"k": k}
    if k == "DivMod":
        return {"k": k, "w": draw(st.integers(0, 6))}
    raise AssertionError(k)


@st.composite
def ext_ops(draw, depth=2):
    """Definition-backed extension ops (see ref.as_custom)."""
    c = dict(draw(op_asts(depth, kinds=["Custom"])), k="ExtOp")
    c["via"] = draw(st.sampled_from(["direct", "direct", "instantiate", "mono"]))
    c["inst"] = draw(st.booleans())
    if draw(st.integers(0, 2)) == 0 and c["reqs"]:
        # the defining extension already among the requirements (at any position)
        c["ext"] = draw(st.sampled_from(c["reqs"]))
    return c


@st.composite
def rowpoly_calls(draw, depth=2):
    """Call / LoadFunc over a row-polymorphic signature whose instantiation has a
    different arity than the polymorphic body."""
    k = draw(st.sampled_from(["Call", "LoadFunc"]))
    b = draw(st.sampled_from(BOUNDS))
    extra = draw(st.lists(st.one_of(params(1), st.sampled_from(BOUNDS).map(lambda x: {"k": "type", "b": x})), max_size=2))
    pos = draw(st.integers(0, len(extra)))
    ps = extra[:pos] + [{"k": "list", "p": {"k": "type", "b": b}}] + extra[pos:]
    t = types(depth, tvars=ps)
    rv = {"k": "rowvar", "i": pos, "b": b}
    i = draw(st.lists(t, max_size=2))
    o = draw(st.lists(t, max_size=2))
    where = draw(st.sampled_from(["i", "o", "both"]))
    if where in ("i", "both"):
        i.insert(draw(st.integers(0, len(i))), rv)
    if where in ("o", "both"):
        o.insert(draw(st.integers(0, len(o))), rv)
    targs = []
    for j, p in enumerate(ps):
        if j == pos:
            n = draw(st.sampled_from([0, 2, 3]))
            elems = [draw(types(depth - 1, copy_only=(b == "C"))) for _ in range(n)]
            targs.append({"k": "seq", "es": [{"k": "type", "t": e} for e in elems]})
        else:
            targs.append(draw(arg_for_param(p, depth - 1)))
    return {"k": k, "params": ps, "i": i, "o": o, "reqs": draw(REQS), "targs": targs}


# ------------------------------------------------------------------ generated extension types


@st.composite
def typedefs(draw, force_copy=False):
    """Generated TypeDef description: explicit bound or from-params bound (index lists mostly over the
    type parameters, sometimes empty, sometimes naming a non-type parameter before a type parameter)."""
    ps = draw(st.lists(params(1), max_size=3))
    shape = "E" if force_copy else draw(st.sampled_from(["E", "E", "E", "F", "F", "F", "F", "empty", "mixed", "mixed"]))
    if shape == "mixed":
        # a named argument that is not a type contributes nothing; the type argument named after it does
        non = draw(st.sampled_from([{"k": "nat", "max": None}, {"k": "string"}, {"k": "nat", "max": 7}]))
        ps = ps[:2]
        ps.insert(draw(st.integers(0, len(ps))), non)
        ps.insert(draw(st.integers(0, len(ps))), {"k": "type", "b": "A"})
        ni = next(i for i, p in enumerate(ps) if p is non)
        ti = next(i for i, p in enumerate(ps) if p["k"] == "type" and p["b"] == "A")
        b = {"b": "F", "idx": [ni, ti] + draw(st.lists(st.integers(0, len(ps) - 1), max_size=2))}
        return {"ext": draw(EXT_NAMES), "name": draw(NAMES), "params": [dict(p) for p in ps], "bound": b, "desc": draw(DESCS)}
    tidx = [i for i, p in enumerate(ps) if p["k"] == "type"]
    if shape == "empty":
        # a from-params bound naming no parameter: the join of nothing is Copyable
        b = {"b": "F", "idx": []}
    elif shape == "E" or not tidx:
        b = {"b": "E", "v": "C" if force_copy else draw(st.sampled_from(BOUNDS))}
    else:
        b = {"b": "F", "idx": draw(st.lists(st.sampled_from(tidx), min_size=1, max_size=3))}
    return {"ext": draw(EXT_NAMES), "name": draw(NAMES), "params": ps, "bound": b, "desc": draw(DESCS)}


@st.composite
def ext_types(draw, depth=2, nest=1):
    d = draw(typedefs())
    inner = types_x(depth - 1, nest - 1) if nest > 0 else types(depth - 1)
    a = []
    for p in d["params"]:
        if p["k"] == "type":
            t = draw(types(depth - 1, copy_only=True) if p["b"] == "C" else weighted((1, st.just({"k": "qubit"})), (3, inner)))
            a.append({"k": "type", "t": t})
        else:
            a.append(draw(arg_for_param(p, depth - 1)))
    return {"k": "ext", "def": d, "args": a}


def types_x(depth=3, nest=1):
    """Types that may contain generated extension types (also nested inside sums,
    tuples, arrays and as arguments of other extension types)."""
    base = types(depth)
    if depth <= 0:
        return base
    e = ext_types(depth, nest)
    row = st.lists(weighted((2, base), (1, e)), max_size=3)
    return weighted((2, base), (3, e), (3, _composite_x(row, e)))


def _composite_x(row, e):
    return st.one_of(
        row.map(lambda ts: {"k": "tuple", "ts": ts}),
        st.lists(row, max_size=3).map(lambda rs: {"k": "sum", "rows": rs}),
        row.map(lambda ts: {"k": "option", "ts": ts}),
        st.tuples(st.integers(0, 3), e).map(lambda t: {"k": "array", "n": t[0], "t": t[1]}),
        e.map(lambda t: {"k": "list", "t": t}),
    )
