"""Reference functions over the case-language ASTs, written from the published
schema, the specification and the Rust reference (serde types, ops/dataflow.rs,
ops/controlflow.rs, types.rs) -- never by calling hugr.

  enc_type / enc_param / enc_arg / enc_value / enc_op : canonical wire form
  ref_bound                                          : type bound ("C" / "A")
  ref_typeof                                         : type AST of a value AST
  subst_type / subst_row                             : variable substitution
  ref_sig                                            : signature algebra of an op AST
  norm_type                                          : reader-normal form for type equality
"""

from __future__ import annotations

from vlib.asts import rows_of

INT_EXT = "arithmetic.int.types"
FLOAT_EXT = "arithmetic.float.types"

_STD_DESC: dict = {}


def std_description(ext: str, op: str) -> str:
    """Description of a standard-extension op, read from the specification's extension files."""
    import json
    import os

    if not _STD_DESC:
        root = os.path.join(os.environ.get("VERIF_REPO", "/repo"), "specification", "std_extensions")
        for dirpath, _, files in os.walk(root):
            for fn in files:
                if fn.endswith(".json"):
                    with open(os.path.join(dirpath, fn)) as f:
                        d = json.load(f)
                    for k, v in d["operations"].items():
                        _STD_DESC[(d["name"], k)] = v.get("description", "")
    return _STD_DESC.get((ext, op), "")


# ------------------------------------------------------------------ params / args


def enc_param(p):
    k = p["k"]
    if k == "type":
        return {"tp": "Type", "b": p["b"]}
    if k == "nat":
        return {"tp": "BoundedNat", "bound": p["max"]}
    if k == "string":
        return {"tp": "String"}
    if k == "exts":
        return {"tp": "Extensions"}
    if k == "list":
        return {"tp": "List", "param": enc_param(p["p"])}
    if k == "tuple":
        return {"tp": "Tuple", "params": [enc_param(q) for q in p["ps"]]}
    raise ValueError(k)


def enc_arg(a):
    k = a["k"]
    if k == "type":
        return {"tya": "Type", "ty": enc_type(a["t"])}
    if k == "nat":
        return {"tya": "BoundedNat", "n": a["n"]}
    if k == "str":
        return {"tya": "String", "arg": a["s"]}
    if k == "seq":
        return {"tya": "Sequence", "elems": [enc_arg(e) for e in a["es"]]}
    if k == "exts":
        return {"tya": "Extensions", "es": list(a["es"])}
    if k == "var":
        return {"tya": "Variable", "idx": a["i"], "cached_decl": enc_param(a["p"])}
    raise ValueError(k)


# ------------------------------------------------------------------ types


def _opaque(ext, id_, args, bound):
    return {"t": "Opaque", "extension": ext, "id": id_, "args": args, "bound": bound}


def enc_row(r):
    return [enc_type(t) for t in r]


def enc_fn(t):
    return {"t": "G", "input": enc_row(t["i"]), "output": enc_row(t["o"]), "runtime_reqs": list(t.get("reqs", []))}


def enc_poly(params, fn):
    return {"params": [enc_param(p) for p in params], "body": enc_fn(fn)}


def enc_type(t):
    k = t["k"]
    if k == "bool":
        return {"t": "Sum", "s": "Unit", "size": 2}
    if k == "unit":
        return {"t": "Sum", "s": "Unit", "size": 1}
    if k == "unitsum":
        return {"t": "Sum", "s": "Unit", "size": t["n"]}
    if k == "qubit":
        return {"t": "Q"}
    if k == "usize":
        return {"t": "I"}
    if k in ("sum", "tuple", "option", "either"):
        return {"t": "Sum", "s": "General", "rows": [enc_row(r) for r in rows_of(t)]}
    if k == "fn":
        return enc_fn(t)
    if k == "var":
        return {"t": "V", "i": t["i"], "b": t["b"]}
    if k == "rowvar":
        return {"t": "R", "i": t["i"], "b": t["b"]}
    if k == "alias":
        return {"t": "Alias", "bound": t["b"], "name": t["name"]}
    if k == "opaque":
        return _opaque(t["ext"], t["id"], [enc_arg(a) for a in t["args"]], t["b"])
    if k == "int":
        return _opaque(INT_EXT, "int", [{"tya": "BoundedNat", "n": t["w"]}], "C")
    if k == "intvar":
        return _opaque(INT_EXT, "int", [{"tya": "Variable", "idx": t["i"], "cached_decl": {"tp": "BoundedNat", "bound": 7}}], "C")
    if k == "float":
        return _opaque(FLOAT_EXT, "float64", [], "C")
    if k == "string":
        return _opaque("prelude", "string", [], "C")
    if k == "array":
        return _opaque("collections.array", "array", [{"tya": "BoundedNat", "n": t["n"]}, {"tya": "Type", "ty": enc_type(t["t"])}], ref_bound(t))
    if k == "list":
        return _opaque("collections.list", "List", [{"tya": "Type", "ty": enc_type(t["t"])}], ref_bound(t))
    if k == "sarray":
        return _opaque("collections.static_array", "static_array", [{"tya": "Type", "ty": enc_type(t["t"])}], "C")
    if k == "ext":
        d = t["def"]
        return _opaque(d["ext"], d["name"], [enc_arg(a) for a in t["args"]], ref_bound(t))
    raise ValueError(k)


def join(bs):
    return "A" if any(b == "A" for b in bs) else "C"


def ref_bound(t) -> str:
    """Copyable ('C') exactly when every constituent is copyable."""
    k = t["k"]
    if k in ("bool", "unit", "unitsum", "usize", "fn", "int", "intvar", "float", "string"):
        return "C"
    if k == "qubit":
        return "A"
    rs = rows_of(t)
    if rs is not None:
        return join(ref_bound(x) for r in rs for x in r)
    if k in ("var", "rowvar", "alias", "opaque"):
        return t["b"]
    if k in ("array", "list"):
        return ref_bound(t["t"])
    if k == "sarray":
        return "C"
    if k == "ext":
        b = t["def"]["bound"]
        if b["b"] == "E":
            return b["v"]
        bs = []
        for i in b["idx"]:
            a = t["args"][i]
            if a["k"] == "type":
                bs.append(ref_bound(a["t"]))
        return join(bs)
    raise ValueError(k)


# ------------------------------------------------------------------ substitution


def subst_arg(a, targs):
    k = a["k"]
    if k == "type":
        r = subst_row([a["t"]], targs)
        if len(r) == 1:
            return {"k": "type", "t": r[0]}
        return {"k": "seq", "es": [{"k": "type", "t": x} for x in r]}
    if k == "seq":
        return {"k": "seq", "es": [subst_arg(e, targs) for e in a["es"]]}
    if k == "var":
        return targs[a["i"]]
    return a


def subst_row(row, targs):
    out = []
    for t in row:
        if t["k"] == "rowvar":
            a = targs[t["i"]]
            if a["k"] == "seq":
                out += [e["t"] for e in a["es"]]
            elif a["k"] == "var":  # still a row variable
                out.append({"k": "rowvar", "i": a["i"], "b": t["b"]})
            else:
                raise ValueError("row variable instantiated with non-sequence")
        else:
            out.append(subst_type(t, targs))
    return out


def subst_type(t, targs):
    k = t["k"]
    if k == "var":
        a = targs[t["i"]]
        if a["k"] == "type":
            return a["t"]
        if a["k"] == "var":
            return {"k": "var", "i": a["i"], "b": t["b"]}
        raise ValueError("type variable instantiated with non-type")
    if k == "intvar":
        a = targs[t["i"]]
        if a["k"] == "nat":
            return {"k": "int", "w": a["n"]}
        if a["k"] == "var":
            return {"k": "intvar", "i": a["i"]}
        raise ValueError("nat variable instantiated with non-nat")
    if k == "sum":
        return {"k": "sum", "rows": [subst_row(r, targs) for r in t["rows"]]}
    if k in ("tuple", "option"):
        return {"k": k, "ts": subst_row(t["ts"], targs)}
    if k == "either":
        return {"k": k, "l": subst_row(t["l"], targs), "r": subst_row(t["r"], targs)}
    if k == "fn":
        return {"k": "fn", "i": subst_row(t["i"], targs), "o": subst_row(t["o"], targs), "reqs": t.get("reqs", [])}
    if k == "opaque":
        return dict(t, args=[subst_arg(a, targs) for a in t["args"]])
    if k == "ext":
        return dict(t, args=[subst_arg(a, targs) for a in t["args"]])
    if k in ("array", "list", "sarray"):
        return dict(t, t=subst_type(t["t"], targs))
    return t


# ------------------------------------------------------------------ normal form for equality


def norm_enc(e, sort_reqs=True):
    """Reader-normal form of an encoded type / row / arbitrary JSON containing types:
    a General sum whose rows are all empty == Unit{size}; runtime_reqs are sets."""
    if isinstance(e, list):
        return [norm_enc(x, sort_reqs) for x in e]
    if isinstance(e, dict):
        d = {k: norm_enc(v, sort_reqs) for k, v in e.items()}
        if d.get("t") == "Sum" and d.get("s") == "General" and all(len(r) == 0 for r in d.get("rows", [None])):
            return {"t": "Sum", "s": "Unit", "size": len(d["rows"])}
        if sort_reqs and d.get("t") == "G" and "runtime_reqs" in d:
            d["runtime_reqs"] = sorted(set(d["runtime_reqs"]))
        return d
    return e


def norm_type(t, sort_reqs=True):
    return norm_enc(enc_type(t), sort_reqs)


def ty_eq(a, b) -> bool:
    return norm_type(a) == norm_type(b)


def row_eq(a, b) -> bool:
    return [norm_type(x) for x in a] == [norm_type(x) for x in b]


# ------------------------------------------------------------------ values


def ref_typeof(v):
    """Type AST a value AST inhabits (representation-exact: sugar constructors
    yield the corresponding sugar type)."""
    k = v["k"]
    if k == "sum":
        return v["typ"]
    if k == "unitsum":
        return {"k": "unitsum", "n": v["n"]}
    if k in ("true", "false", "boolv"):
        return {"k": "unitsum", "n": 2}
    if k == "unit":
        return {"k": "unitsum", "n": 1}
    if k == "tuple":
        return {"k": "tuple", "ts": [ref_typeof(x) for x in v["vs"]]}
    if k == "some":
        return {"k": "option", "ts": [ref_typeof(x) for x in v["vs"]]}
    if k == "none":
        return {"k": "option", "ts": v["ts"]}
    if k == "left":
        return {"k": "either", "l": [ref_typeof(x) for x in v["vs"]], "r": v["r"]}
    if k == "right":
        return {"k": "either", "l": v["l"], "r": [ref_typeof(x) for x in v["vs"]]}
    if k == "int":
        return {"k": "int", "w": v["w"]}
    if k == "float":
        return {"k": "float"}
    if k == "string":
        return {"k": "string"}
    if k == "array":
        return {"k": "array", "n": len(v["vs"]), "t": v["t"]}
    if k == "list":
        return {"k": "list", "t": v["t"]}
    if k == "sarray":
        return {"k": "sarray", "t": v["t"]}
    if k == "ext":
        return v["t"]
    if k == "function":
        return {"k": "fn", "i": v["i"], "o": v["o"], "reqs": list(v.get("reqs", []))}
    raise ValueError(k)


def ref_tag(v) -> int:
    k = v["k"]
    if k in ("sum", "unitsum"):
        return v["tag"]
    if k in ("true", "some", "right"):
        return 1
    if k == "boolv":
        return int(v["b"])
    return 0


def _custom(name, typ, payload, exts):
    return {"v": "Extension", "extensions": exts, "typ": enc_type(typ), "value": {"c": name, "v": payload}}


def enc_value(v):
    k = v["k"]
    if k == "tuple":
        return {"v": "Tuple", "vs": [enc_value(x) for x in v["vs"]]}
    if k in ("sum", "unitsum", "true", "false", "boolv", "unit", "some", "none", "left", "right"):
        vs = v.get("vs", [])
        return {"v": "Sum", "tag": ref_tag(v), "typ": enc_type(ref_typeof(v)), "vs": [enc_value(x) for x in vs]}
    if k == "int":
        return _custom("ConstInt", ref_typeof(v), {"log_width": v["w"], "value": v["v"]}, [INT_EXT])
    if k == "float":
        return _custom("ConstF64", ref_typeof(v), {"value": v["v"]}, [FLOAT_EXT])
    if k == "string":
        return _custom("ConstString", ref_typeof(v), {"value": v["s"]}, ["prelude"])
    if k == "array":
        return _custom("ArrayValue", ref_typeof(v), {"values": [enc_value(x) for x in v["vs"]], "typ": enc_type(v["t"])}, ["collections.array"])
    if k == "list":
        return _custom("ListValue", ref_typeof(v), {"values": [enc_value(x) for x in v["vs"]], "typ": enc_type(v["t"])}, ["collections.list"])
    if k == "sarray":
        return _custom(
            "StaticArrayValue",
            ref_typeof(v),
            {"value": {"values": [enc_value(x) for x in v["vs"]], "typ": enc_type(v["t"])}, "name": v["name"]},
            ["collections.static_array"],
        )
    if k == "ext":
        return _custom(v["name"], v["t"], v["payload"], list(v["exts"]))
    if k == "function":
        sig = {"t": "G", "input": enc_row(v["i"]), "output": enc_row(v["o"]), "runtime_reqs": list(v.get("reqs", []))}
        return {
            "v": "Function",
            "hugr": {
                "nodes": [
                    {"parent": 0, "op": "DFG", "signature": sig},
                    {"parent": 0, "op": "Input", "types": enc_row(v["i"])},
                    {"parent": 0, "op": "Output", "types": enc_row(v["o"])},
                    {"parent": 0, "op": "Extension", "extension": "gen.ext", "name": "body", "signature": dict(sig, runtime_reqs=[]), "description": "", "args": []},
                ],
                "edges": [[[1, k], [3, k]] for k in range(len(v["i"]))] + [[[3, k], [2, k]] for k in range(len(v["o"]))],
            },
        }
    raise ValueError(k)


# ------------------------------------------------------------------ ops


def _sig(i, o, reqs=()):
    return {"t": "G", "input": enc_row(i), "output": enc_row(o), "runtime_reqs": list(reqs)}


def op_tag_rows(op):
    """Normalises the sugar tag ops to (tag, rows, sum type AST)."""
    k = op["k"]
    if k == "Tag":
        return op["tag"], op["rows"], {"k": "sum", "rows": op["rows"]}
    if k == "SomeTag":
        return 1, [[], op["ts"]], {"k": "option", "ts": op["ts"]}
    if k in ("LeftTag", "Continue"):
        return 0, [op["l"], op["r"]], {"k": "either", "l": op["l"], "r": op["r"]}
    if k in ("RightTag", "Break"):
        return 1, [op["l"], op["r"]], {"k": "either", "l": op["l"], "r": op["r"]}
    raise ValueError(k)


def call_inst(op):
    """Instantiated signature (i, o, reqs) of a Call / LoadFunc op AST."""
    if not op["params"]:
        return op["i"], op["o"], op.get("reqs", [])
    return subst_row(op["i"], op["targs"]), subst_row(op["o"], op["targs"]), op.get("reqs", [])


def as_custom(op):
    """Definition-backed extension op AST -> the Custom op it stands for.  `via`: "direct" =
    ExtOp(def, signature, args) (signature used as given); "instantiate" = OpDef.instantiate (adds
    the defining extension to the requirements); "mono" = no cached signature, the definition's
    monomorphic scheme (to which add_op_def added the defining extension)."""
    reqs = list(op.get("reqs", []))
    if op["via"] in ("instantiate", "mono") and op["ext"] not in reqs:
        reqs.append(op["ext"])
    return {"k": "Custom", "ext": op["ext"], "name": op["name"], "i": op["i"], "o": op["o"], "reqs": reqs, "desc": op.get("desc", ""), "args": op.get("args", [])}


def enc_op(op, parent=0):
    if op["k"] == "ExtOp":
        op = as_custom(op)
    k = op["k"]
    base = {"parent": parent}
    if k == "Module":
        return dict(base, op="Module")
    if k == "FuncDefn":
        return dict(base, op="FuncDefn", name=op["name"], signature=enc_poly(op["params"], {"i": op["i"], "o": op["o"], "reqs": []}))
    if k == "FuncDecl":
        return dict(base, op="FuncDecl", name=op["name"], signature=enc_poly(op["params"], {"i": op["i"], "o": op["o"], "reqs": op.get("reqs", [])}))
    if k == "AliasDecl":
        return dict(base, op="AliasDecl", name=op["name"], bound=op["b"])
    if k == "AliasDefn":
        return dict(base, op="AliasDefn", name=op["name"], definition=enc_type(op["t"]))
    if k == "Const":
        return dict(base, op="Const", v=enc_value(op["v"]))
    if k == "Input":
        return dict(base, op="Input", types=enc_row(op["ts"]))
    if k == "Output":
        return dict(base, op="Output", types=enc_row(op["ts"]))
    if k in ("Call", "LoadFunc"):
        i, o, reqs = call_inst(op)
        return dict(
            base,
            op="Call" if k == "Call" else "LoadFunction",
            func_sig=enc_poly(op["params"], {"i": op["i"], "o": op["o"], "reqs": op.get("reqs", [])}),
            type_args=[enc_arg(a) for a in (op["targs"] if op["params"] else [])],
            instantiation=_sig(i, o, reqs),
        )
    if k == "CallIndirect":
        return dict(base, op="CallIndirect", signature=_sig(op["i"], op["o"], op.get("reqs", [])))
    if k == "LoadConst":
        return dict(base, op="LoadConstant", datatype=enc_type(op["t"]))
    if k == "DFG":
        return dict(base, op="DFG", signature=_sig(op["i"], op["o"], op.get("reqs", [])))
    if k == "CFG":
        return dict(base, op="CFG", signature=_sig(op["i"], op["o"]))
    if k == "Case":
        return dict(base, op="Case", signature=_sig(op["i"], op["o"]))
    if k == "Conditional":
        return dict(base, op="Conditional", other_inputs=enc_row(op["others"]), outputs=enc_row(op["outs"]), sum_rows=[enc_row(r) for r in op["rows"]], extension_delta=[])
    if k == "TailLoop":
        return dict(base, op="TailLoop", just_inputs=enc_row(op["ji"]), just_outputs=enc_row(op["jo"]), rest=enc_row(op["rest"]), extension_delta=list(op.get("delta", [])))
    if k == "DataflowBlock":
        return dict(base, op="DataflowBlock", inputs=enc_row(op["i"]), other_outputs=enc_row(op["others"]), sum_rows=[enc_row(r) for r in op["rows"]], extension_delta=list(op.get("delta", [])))
    if k == "ExitBlock":
        return dict(base, op="ExitBlock", cfg_outputs=enc_row(op["ts"]))
    if k in ("Tag", "SomeTag", "LeftTag", "RightTag", "Continue", "Break"):
        tag, rows, _ = op_tag_rows(op)
        return dict(base, op="Tag", tag=tag, variants=[enc_row(r) for r in rows])
    if k == "Custom":
        return dict(base, op="Extension", extension=op["ext"], name=op["name"], signature=_sig(op["i"], op["o"], op.get("reqs", [])), description=op.get("desc", ""), args=[enc_arg(a) for a in op.get("args", [])])
    if k == "MakeTuple":
        seq = {"tya": "Sequence", "elems": [{"tya": "Type", "ty": enc_type(t)} for t in op["ts"]]}
        return dict(base, op="Extension", extension="prelude", name="MakeTuple", signature=_sig(op["ts"], [{"k": "tuple", "ts": op["ts"]}], ["prelude"]), description=std_description("prelude", "MakeTuple"), args=[seq])
    if k == "UnpackTuple":
        seq = {"tya": "Sequence", "elems": [{"tya": "Type", "ty": enc_type(t)} for t in op["ts"]]}
        return dict(base, op="Extension", extension="prelude", name="UnpackTuple", signature=_sig([{"k": "tuple", "ts": op["ts"]}], op["ts"], ["prelude"]), description=std_description("prelude", "UnpackTuple"), args=[seq])
    if k == "Noop":
        return dict(base, op="Extension", extension="prelude", name="Noop", signature=_sig([op["t"]], [op["t"]], ["prelude"]), description=std_description("prelude", "Noop"), args=[{"tya": "Type", "ty": enc_type(op["t"])}])
    if k == "Not":
        b = {"k": "bool"}
        return dict(base, op="Extension", extension="logic", name="Not", signature=_sig([b], [b], ["logic"]), description=std_description("logic", "Not"), args=[])
    if k == "DivMod":
        t = {"k": "int", "w": op["w"]}
        return dict(base, op="Extension", extension="arithmetic.int", name="idivmod_u", signature=_sig([t, t], [t, t], ["arithmetic.int"]), description=std_description("arithmetic.int", "idivmod_u"), args=[{"tya": "BoundedNat", "n": op["w"]}])
    raise ValueError(k)


def ref_sig(op):
    """Signature algebra (specification 'Node operations', ops/dataflow.rs,
    ops/controlflow.rs).  Returns a dict:
      ins/outs      : value port rows (type ASTs)        (None for non-dataflow ops)
      static_in     : ('fn'|'const', payload) or None    (sits right after the value inputs)
      static_out    : ('fn'|'const', payload) or None    (output 0)
      order         : True when the op has order ports (-1) in both directions
      cf_in/cf_out  : number of control-flow ports
      inner         : (ins, outs) of the child dataflow graph or None
      nth           : for Conditional: case i inputs; for DataflowBlock: successor i row
    """
    if op["k"] == "ExtOp":
        op = as_custom(op)
    k = op["k"]
    r = {"ins": None, "outs": None, "static_in": None, "static_out": None, "order": False, "order_in": False, "order_out": False, "cf_in": 0, "cf_out": 0, "inner": None, "nth": None}

    def df(i, o):
        r.update(ins=list(i), outs=list(o), order=True, order_in=(k != "Input"), order_out=(k != "Output"))

    if k in ("Module", "AliasDecl", "AliasDefn"):
        return r
    if k == "FuncDefn":
        r["static_out"] = ("fn", (op["params"], op["i"], op["o"], []))
        r["inner"] = (op["i"], op["o"])
        return r
    if k == "FuncDecl":
        r["static_out"] = ("fn", (op["params"], op["i"], op["o"], op.get("reqs", [])))
        return r
    if k == "Const":
        r["static_out"] = ("const", ref_typeof(op["v"]))
        return r
    if k == "Input":
        df([], op["ts"])
        return r
    if k == "Output":
        df(op["ts"], [])
        return r
    if k == "Call":
        i, o, _ = call_inst(op)
        df(i, o)
        r["static_in"] = ("fn", (op["params"], op["i"], op["o"], op.get("reqs", [])))
        return r
    if k == "LoadFunc":
        i, o, reqs = call_inst(op)
        df([], [{"k": "fn", "i": i, "o": o, "reqs": reqs}])
        r["static_in"] = ("fn", (op["params"], op["i"], op["o"], op.get("reqs", [])))
        return r
    if k == "CallIndirect":
        df([{"k": "fn", "i": op["i"], "o": op["o"], "reqs": op.get("reqs", [])}] + list(op["i"]), op["o"])
        return r
    if k == "LoadConst":
        df([], [op["t"]])
        r["static_in"] = ("const", op["t"])
        return r
    if k == "DFG":
        df(op["i"], op["o"])
        r["inner"] = (op["i"], op["o"])
        return r
    if k == "CFG":
        df(op["i"], op["o"])
        return r
    if k == "Case":
        r["inner"] = (op["i"], op["o"])
        return r
    if k == "Conditional":
        df([{"k": "sum", "rows": op["rows"]}] + list(op["others"]), op["outs"])
        r["nth"] = [list(row) + list(op["others"]) for row in op["rows"]]
        return r
    if k == "TailLoop":
        df(list(op["ji"]) + list(op["rest"]), list(op["jo"]) + list(op["rest"]))
        r["inner"] = (list(op["ji"]) + list(op["rest"]), [{"k": "sum", "rows": [op["ji"], op["jo"]]}] + list(op["rest"]))
        return r
    if k == "DataflowBlock":
        r["cf_in"], r["cf_out"] = 1, len(op["rows"])
        r["inner"] = (op["i"], [{"k": "sum", "rows": op["rows"]}] + list(op["others"]))
        r["nth"] = [list(row) + list(op["others"]) for row in op["rows"]]
        return r
    if k == "ExitBlock":
        r["cf_in"] = 1
        return r
    if k in ("Tag", "SomeTag", "LeftTag", "RightTag", "Continue", "Break"):
        tag, rows, sum_t = op_tag_rows(op)
        df(rows[tag], [sum_t])
        return r
    if k == "Custom":
        df(op["i"], op["o"])
        return r
    if k == "MakeTuple":
        df(op["ts"], [{"k": "tuple", "ts": op["ts"]}])
        return r
    if k == "UnpackTuple":
        df([{"k": "tuple", "ts": op["ts"]}], op["ts"])
        return r
    if k == "Noop":
        df([op["t"]], [op["t"]])
        return r
    if k == "Not":
        df([{"k": "bool"}], [{"k": "bool"}])
        return r
    if k == "DivMod":
        t = {"k": "int", "w": op["w"]}
        df([t, t], [t, t])
        return r
    raise ValueError(k)


# ------------------------------------------------------------------ general ("opaque") forms


def opaquify_arg(a):
    k = a["k"]
    if k == "type":
        return {"k": "type", "t": opaquify(a["t"])}
    if k == "seq":
        return {"k": "seq", "es": [opaquify_arg(e) for e in a["es"]]}
    return a


def opaquify(t):
    """The form a decoder returns: extension types in their opaque form."""
    k = t["k"]
    if k in ("int", "intvar", "float", "string", "array", "list", "sarray", "ext"):
        e = enc_type(t)
        if k == "int":
            args = [{"k": "nat", "n": t["w"]}]
        elif k == "intvar":
            args = [{"k": "var", "i": t["i"], "p": {"k": "nat", "max": 7}}]
        elif k == "array":
            args = [{"k": "nat", "n": t["n"]}, {"k": "type", "t": opaquify(t["t"])}]
        elif k in ("list", "sarray"):
            args = [{"k": "type", "t": opaquify(t["t"])}]
        elif k == "ext":
            args = [opaquify_arg(a) for a in t["args"]]
        else:
            args = []
        return {"k": "opaque", "ext": e["extension"], "id": e["id"], "args": args, "b": e["bound"]}
    if k == "sum":
        return {"k": "sum", "rows": [[opaquify(x) for x in r] for r in t["rows"]]}
    if k in ("tuple", "option"):
        return {"k": k, "ts": [opaquify(x) for x in t["ts"]]}
    if k == "either":
        return {"k": k, "l": [opaquify(x) for x in t["l"]], "r": [opaquify(x) for x in t["r"]]}
    if k == "fn":
        return dict(t, i=[opaquify(x) for x in t["i"]], o=[opaquify(x) for x in t["o"]])
    if k == "opaque":
        return dict(t, args=[opaquify_arg(a) for a in t["args"]])
    return t


def opaquify_row(r):
    return [opaquify(t) for t in r]


def general_value(v):
    """Decoder-side form of a value AST: extension constants as generic
    extension values with JSON payload, types in opaque form."""
    k = v["k"]
    if k in ("int", "float", "string", "array", "list", "sarray"):
        e = enc_value(v)
        return {"k": "ext", "name": e["value"]["c"], "t": opaquify(ref_typeof(v)), "payload": e["value"]["v"], "exts": e["extensions"]}
    if k == "ext":
        return dict(v, t=opaquify(v["t"]))
    if k == "function":
        return dict(v, i=opaquify_row(v["i"]), o=opaquify_row(v["o"]))
    out = dict(v)
    if "vs" in v:
        out["vs"] = [general_value(x) for x in v["vs"]]
    for key in ("ts", "l", "r"):
        if key in v and isinstance(v[key], list) and key != "vs":
            out[key] = opaquify_row(v[key])
    if "typ" in v:
        out["typ"] = opaquify(v["typ"])
    return out


def general_op(op):
    """Decoder-side form of an op AST: sugar tags as Tag, extension ops as
    Custom, extension types opaque."""
    if op["k"] == "ExtOp":
        op = as_custom(op)
    k = op["k"]
    if k in ("SomeTag", "LeftTag", "RightTag", "Continue", "Break"):
        tag, rows, _ = op_tag_rows(op)
        return {"k": "Tag", "tag": tag, "rows": [opaquify_row(r) for r in rows]}
    if k in ("MakeTuple", "UnpackTuple", "Noop", "Not", "DivMod"):
        e = enc_op(op)
        s = ref_sig(op)
        args = {
            "MakeTuple": lambda: [{"k": "seq", "es": [{"k": "type", "t": opaquify(t)} for t in op["ts"]]}],
            "UnpackTuple": lambda: [{"k": "seq", "es": [{"k": "type", "t": opaquify(t)} for t in op["ts"]]}],
            "Noop": lambda: [{"k": "type", "t": opaquify(op["t"])}],
            "Not": lambda: [],
            "DivMod": lambda: [{"k": "nat", "n": op["w"]}],
        }[k]()
        return {"k": "Custom", "ext": e["extension"], "name": e["name"], "i": opaquify_row(s["ins"]), "o": opaquify_row(s["outs"]), "reqs": e["signature"]["runtime_reqs"], "desc": e["description"], "args": args}
    out = dict(op)
    for key in ("i", "o", "ts", "ji", "jo", "rest", "others", "outs", "l", "r"):
        if key in op:
            out[key] = opaquify_row(op[key])
    if "rows" in op:
        out["rows"] = [opaquify_row(r) for r in op["rows"]]
    if "t" in op:
        out["t"] = opaquify(op["t"])
    if "v" in op:
        out["v"] = general_value(op["v"])
    if "args" in op:
        out["args"] = [opaquify_arg(a) for a in op["args"]]
    if "targs" in op:
        out["targs"] = [opaquify_arg(a) for a in op["targs"]]
    return out


def strip_nested_hugr(e):
    """Function values embed a whole HUGR document; compare those on nodes and
    edges only (version / encoder / metadata list are document-level fields)."""
    if isinstance(e, list):
        return [strip_nested_hugr(x) for x in e]
    if isinstance(e, dict):
        if e.get("v") == "Function" and isinstance(e.get("hugr"), dict):
            h = e["hugr"]
            return {"v": "Function", "hugr": {"nodes": strip_nested_hugr(h.get("nodes")), "edges": h.get("edges")}}
        return {k: strip_nested_hugr(v) for k, v in e.items()}
    return e
