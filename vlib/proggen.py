"""Typed, constructive generator of builder programs (DESIGN 2.2).

A program is plain JSON: {"root": {...}, "events": [ {...}, ... ]}.  Every event
is one public builder call; wires name the *event* that created their node.
The generator carries its own typing environment and only emits well-formed
programs: every input wired once, linear values consumed exactly once, region
outputs matching their required rows, sibling dependency graphs acyclic,
non-local wires copyable and (inside CFGs) from dominating blocks only.

Nothing here imports hugr."""

from __future__ import annotations

import json

from hypothesis import strategies as st

from vlib import asts, ref
from vlib.asts import rows_of

ROOT = -1
B, Q, U = {"k": "bool"}, {"k": "qubit"}, {"k": "unit"}


def tkey(t) -> str:
    # python-side type equality: sums by rows, runtime_reqs as ordered lists
    return json.dumps(ref.norm_type(t, sort_reqs=False), sort_keys=True)


def is_lin(t) -> bool:
    return ref.ref_bound(t) == "A"


def closed_type(t) -> bool:
    s = json.dumps(t)
    return '"var"' not in s and '"rowvar"' not in s and '"intvar"' not in s


class Region:
    def __init__(self, rid, kind, sub, parent, node, ins, tvars=None, detached_root=None):
        self.id = rid
        self.kind = kind  # 'D' dataflow, 'module', 'cfg', 'cond'
        self.sub = sub  # dfg / func / nested / case / loop / block / ...
        self.parent = parent  # region id or None
        self.node = node  # event id of the node that owns the region (or ROOT)
        self.ins = ins
        self.wires = []  # wires defined directly in this region
        self.open_children = 0
        self.closed = False
        self.required = None  # required output row (list of types) or None
        self.extra = {}
        self.tvars = tvars
        self.n_instr = 0
        self.dep = {}  # sibling dependency graph: node key -> set(node keys)
        self.detached_root = detached_root  # region id of the detached builder this belongs to (or None)
        self.nodes = []  # non-I/O sibling node keys in creation order
        self.consts = []  # const nodes placed here: (event id, type)


class Gen:
    def __init__(self, draw, size, flags):
        self.draw = draw
        self.size = size
        self.flags = flags
        self.events = []
        self.regions: dict[int, Region] = {}
        self.funcs = []  # dicts: ev, params, i, o, reqs, region (where defined), callable (bool), detached_root
        self.classes = set()
        self.tpool = [B, B, Q, U, {"k": "int", "w": draw(st.integers(0, 6))}, {"k": "float"}, {"k": "usize"}]
        for _ in range(3):
            self.tpool.append(draw(asts.types(1)))
        self.budget = size

    # ------------------------------------------------------------------ helpers
    def d(self, strat):
        return self.draw(strat)

    def coin(self, p_num=1, p_den=2):
        return self.d(st.integers(0, p_den - 1)) < p_num

    def pick(self, xs):
        return xs[self.d(st.integers(0, len(xs) - 1))]

    def emit(self, ev):
        self.events.append(ev)
        return len(self.events) - 1

    def type_from_pool(self, r: Region | None = None, copy_only=False):
        pool = list(self.tpool)
        if r is not None and r.tvars:
            for i, p in enumerate(r.tvars):
                if p["k"] == "type":
                    pool.append({"k": "var", "i": i, "b": p["b"]})
                    pool.append({"k": "var", "i": i, "b": p["b"]})
                if p["k"] == "nat" and p["max"] == 7:
                    pool.append({"k": "intvar", "i": i})
        if copy_only:
            pool = [t for t in pool if not is_lin(t)]
        return self.pick(pool)

    def row_from_pool(self, r=None, max_size=2, copy_only=False):
        return [self.type_from_pool(r, copy_only) for _ in range(self.d(st.integers(0, max_size)))]

    def new_region(self, kind, sub, parent, node, ins, tvars=None, detached_root=None, rid=None):
        rid = node if rid is None else rid
        r = Region(rid, kind, sub, parent, node, ins, tvars, detached_root)
        if parent is not None and detached_root is None or (parent is not None and self.regions[parent].detached_root == detached_root):
            pass
        self.regions[rid] = r
        if kind == "D":
            for i, t in enumerate(ins):
                r.wires.append({"ref": {"in": rid, "o": i}, "ty": t, "lin": is_lin(t), "used": False, "node": "in"})
            r.dep = {"in": set(), "out": set()}
        if parent is not None:
            self.regions[parent].open_children += 1
        return r

    def add_node(self, r: Region, ev: int, outs, deps=()):
        """Register node `ev` (just emitted) in D-region r with output types outs."""
        r.nodes.append(ev)
        r.dep.setdefault(ev, set())
        for dkey in deps:
            r.dep.setdefault(dkey, set()).add(ev)
        ws = []
        for i, t in enumerate(outs):
            w = {"ref": {"n": ev, "o": i}, "ty": t, "lin": is_lin(t), "used": False, "node": ev}
            r.wires.append(w)
            ws.append(w)
        r.n_instr += 1
        self.budget -= 1
        return ws

    def reach(self, r: Region, a, b) -> bool:
        """Is there a path a ~> b in the sibling dependency graph of r?"""
        seen, stack = set(), [a]
        while stack:
            x = stack.pop()
            if x == b:
                return True
            if x in seen:
                continue
            seen.add(x)
            stack += list(r.dep.get(x, ()))
        return False

    def fn_boundary(self, r: Region) -> bool:
        return r.kind == "D" and r.sub == "func"

    # ------------------------------------------------------------------ wire availability
    def dominates(self, cfg: Region, b1: int, b2: int) -> bool:
        return b1 in cfg.extra["dom"].get(b2, set()) and b1 != b2

    def avail(self, r: Region):
        """[(wire, how, owner_region, via_child_key)] usable as an input of a new node in D-region r."""
        out = []
        for w in r.wires:
            if not (w["lin"] and w["used"]):
                out.append((w, "local", r, None))
        # walk up
        child = r
        while True:
            if child.kind == "D" and child.sub == "func":
                break  # no value edge into a function body
            p = self.regions.get(child.parent) if child.parent is not None else None
            if p is None:
                break
            if p.kind == "cfg":
                # Dom edges: wires defined directly in a strictly dominating block, only when the
                # user is a direct child of a block (the builder's fallback lives in Block)
                if child is r and child.sub == "block":
                    for bid, blk in p.extra["blocks"].items():
                        breg = self.regions.get(blk.get("region")) if blk.get("region") is not None else None
                        if breg is None or breg is child:
                            continue
                        if self.dominates(p, bid, child.extra["bid"]):
                            for w in breg.wires:
                                if not w["lin"]:
                                    out.append((w, "dom", breg, None))
                child = p
                continue
            if p.kind == "cond":
                child = p
                continue
            if p.kind == "module":
                break
            # p is a D-region; the container node of `child` within p:
            ckey = child.node
            for w in p.wires:
                if w["lin"]:
                    continue
                src = w["node"]
                # adds order edge src -> ckey; must not close a cycle, and Input cannot be a target
                if src != "in" and self.reach(p, ckey, src):
                    continue
                out.append((w, "ext", p, ckey))
            child = p
        return out

    def use(self, r: Region, item, node_key):
        """Mark a wire as consumed by node `node_key` created in region r."""
        w, how, owner, ckey = item
        if how == "local":
            if w["lin"]:
                w["used"] = True
            r.dep.setdefault(w["node"], set()).add(node_key)
        elif how == "ext":
            owner.dep.setdefault(w["node"], set()).add(ckey)
            self.classes.add("ext-edge")
        elif how == "dom":
            self.classes.add("dom-edge")
        if w["lin"]:
            self.classes.add("linear-wire")
        return dict(w["ref"])

    def find(self, r: Region, t, taken):
        """An available wire of type t (not already taken for this node if linear)."""
        k = tkey(t)
        cands = [it for it in self.avail(r) if tkey(it[0]["ty"]) == k and not (it[0]["lin"] and id(it[0]) in taken)]
        if not cands:
            return None
        return self.pick(cands)

    def realise(self, r: Region, t, taken):
        """Return an available item of type t, creating a producer if needed."""
        it = self.find(r, t, taken) if self.coin(3, 4) else None
        if it is not None:
            return it
        if closed_type(t) and not is_lin(t) and asts.has_value(t) and self.coin():
            v = self.d(asts.value_of(t, 2))
            if tkey(ref.ref_typeof(v)) == tkey(t):
                ev = self.emit({"e": "load", "r": r.id, "v": v, "cp": None})
                ws = self.add_node(r, ev, [ref.ref_typeof(v)])
                self.classes.add("load-const")
                return (ws[0], "local", r, None)
        op = {"k": "Custom", "ext": "gen.ext", "name": "mk", "i": [], "o": [t], "reqs": [], "desc": "", "args": []}
        ev = self.emit({"e": "op", "r": r.id, "op": op, "args": [], "mode": self.pick(["add_op", "add", "extend"]), "meta": None})
        ws = self.add_node(r, ev, [t])
        return (ws[0], "local", r, None)

    def realise_row(self, r: Region, row, node_key_later=True):
        """Items for every type of row (distinct linear wires)."""
        taken = set()
        items = []
        for t in row:
            it = self.realise(r, t, taken)
            if it[0]["lin"]:
                taken.add(id(it[0]))
            items.append(it)
        return items

    def choose_inputs(self, r: Region, k):
        av = self.avail(r)
        items, taken = [], set()
        for _ in range(k):
            c = [it for it in av if not (it[0]["lin"] and id(it[0]) in taken)]
            if not c:
                break
            # prefer unconsumed linear wires a bit (they must be consumed anyway)
            lin = [it for it in c if it[0]["lin"]]
            it = self.pick(lin) if lin and self.coin() else self.pick(c)
            if it[0]["lin"]:
                taken.add(id(it[0]))
            items.append(it)
        return items

    # ------------------------------------------------------------------ instructions
    def instr_op(self, r: Region):
        kinds = ["custom", "custom", "noop", "mktuple", "tag"]
        if self.flags.get("reuse_partial"):
            kinds += ["noop", "noop", "mktuple", "mktuple", "mktuple"]
        av = self.avail(r)
        tys = [tkey(it[0]["ty"]) for it in av]
        if tkey(B) in tys:
            kinds += ["not", "not"]
        if any(it[0]["ty"]["k"] == "int" for it in av):
            kinds += ["divmod", "divmod"]
        if any(rows_of(it[0]["ty"]) is not None and len(rows_of(it[0]["ty"])) == 1 for it in av):
            kinds += ["unpack", "unpack"]
        if any(it[0]["ty"]["k"] == "fn" and all(x["k"] != "rowvar" for x in it[0]["ty"]["i"] + it[0]["ty"]["o"]) for it in av):
            kinds += ["callindirect", "callindirect"]
        k = self.pick(kinds)
        mode = self.pick(["add_op", "add", "extend"])
        meta = self.d(META) if mode != "extend" else None
        partial = False
        if k == "custom":
            items = self.choose_inputs(r, self.d(st.integers(0, 3)))
            outs = self.row_from_pool(r, 3)
            op = {"k": "Custom", "ext": "gen.ext", "name": self.pick(["f", "g", "ü.op"]), "i": [it[0]["ty"] for it in items], "o": outs, "reqs": [], "desc": "", "args": []}
        elif k == "noop":
            items = self.choose_inputs(r, 1)
            if not items:
                return False
            op = {"k": "Noop", "t": items[0][0]["ty"]}
            outs = [items[0][0]["ty"]]
            partial = self.coin()
        elif k == "mktuple":
            items = self.choose_inputs(r, self.d(st.integers(0, 3)))
            ts = [it[0]["ty"] for it in items]
            op = {"k": "MakeTuple", "ts": ts}
            outs = [{"k": "tuple", "ts": ts}]
            partial = self.coin()
        elif k == "unpack":
            c = [it for it in av if rows_of(it[0]["ty"]) is not None and len(rows_of(it[0]["ty"])) == 1]
            it = self.pick(c)
            items = [it]
            ts = rows_of(it[0]["ty"])[0]
            if any(x["k"] == "rowvar" for x in ts):
                return False
            op = {"k": "UnpackTuple", "ts": ts}
            outs = list(ts)
            partial = self.coin()
            if len(outs) >= 2:
                self.classes.add("multi-output-op")
        elif k == "not":
            it = self.pick([it for it in av if tkey(it[0]["ty"]) == tkey(B)])
            items = [it]
            op = {"k": "Not"}
            outs = [B]
        elif k == "divmod":
            c = [it for it in av if it[0]["ty"]["k"] == "int"]
            a = self.pick(c)
            same = [it for it in c if it[0]["ty"]["w"] == a[0]["ty"]["w"]]
            b = self.pick(same)
            items = [a, b]
            op = {"k": "DivMod", "w": a[0]["ty"]["w"]}
            outs = [a[0]["ty"], a[0]["ty"]]
            self.classes.add("multi-output-op")
        elif k == "tag":
            items = self.choose_inputs(r, self.d(st.integers(0, 2)))
            row = [it[0]["ty"] for it in items]
            form = self.pick(["tag", "tag", "some", "left", "right"])
            if form == "some":
                op = {"k": "SomeTag", "ts": row}
                outs = [{"k": "option", "ts": row}]
            elif form == "left":
                other = self.row_from_pool(r, 2)
                op = {"k": self.pick(["LeftTag", "Continue"]), "l": row, "r": other}
                outs = [{"k": "either", "l": row, "r": other}]
            elif form == "right":
                other = self.row_from_pool(r, 2)
                op = {"k": self.pick(["RightTag", "Break"]), "l": other, "r": row}
                outs = [{"k": "either", "l": other, "r": row}]
            else:
                n = self.d(st.integers(1, 3))
                tag = self.d(st.integers(0, n - 1))
                rows = [row if i == tag else self.row_from_pool(r, 2) for i in range(n)]
                op = {"k": "Tag", "tag": tag, "rows": rows}
                outs = [{"k": "sum", "rows": rows}]
        elif k == "callindirect":
            c = [it for it in av if it[0]["ty"]["k"] == "fn" and all(x["k"] != "rowvar" for x in it[0]["ty"]["i"] + it[0]["ty"]["o"])]
            f = self.pick(c)
            ft = f[0]["ty"]
            items = [f] + self.realise_row(r, ft["i"])
            op = {"k": "CallIndirect", "i": ft["i"], "o": ft["o"], "reqs": ft.get("reqs", [])}
            outs = list(ft["o"])
            partial = self.coin()
        else:
            return False
        # no linear wire twice among the inputs
        lin_ids = [id(it[0]) for it in items if it[0]["lin"]]
        if len(lin_ids) != len(set(lin_ids)):
            return False
        ev = len(self.events)
        args = [self.use(r, it, ev) for it in items]
        if self.flags.get("reuse_partial") and op["k"] in ("Noop", "MakeTuple", "UnpackTuple", "CallIndirect"):
            partial = True
        evd = {"e": "op", "r": r.id, "op": op, "args": args, "mode": mode, "partial": partial, "meta": meta}
        # the very same operation object used for an earlier node: equal complete ops, or (for the ops that
        # are completed from their input wires) an object of the same class whatever it was completed to
        PARTIAL_KINDS = ("Noop", "MakeTuple", "UnpackTuple", "CallIndirect")
        earlier = [j for j, e2 in enumerate(self.events) if e2.get("e") == "op" and "int_arg" not in e2 and e2.get("same_as") is None and e2["op"]["k"] == op["k"]
                   and (e2["op"] == op or (self.flags.get("reuse_partial") and op["k"] in PARTIAL_KINDS and partial and e2.get("partial")))]
        if earlier and (self.coin(1, 3) or (self.flags.get("reuse_partial") and self.coin(1, 2))):
            j = self.pick(earlier)
            evd["same_as"] = j
            self.classes.add("op-object-reused" if self.events[j]["op"] == op else "partial-op-object-reused-with-other-types")
        self.emit(evd)
        self.add_node(r, ev, outs)
        if meta:
            self.classes.add("metadata")
        if partial:
            self.classes.add("partial-op")
        return True

    def const_parents(self, r: Region):
        """Regions where a Const for a load in r may be placed (r itself or ancestors
        that allow Const children and stay inside the same builder tree)."""
        out = [r]
        cur = r
        while cur.parent is not None:
            p = self.regions[cur.parent]
            if p.kind in ("D", "module", "cfg"):
                out.append(p)
            cur = p
        return out

    def instr_load(self, r: Region):
        t = self.type_from_pool(None, copy_only=True)
        if not closed_type(t) or not asts.has_value(t):
            t = B
        v = self.d(asts.value_of(t, 2))
        existing = [(reg, c) for reg in self.const_parents(r) for c in reg.consts]
        if existing and self.coin():
            reg, (cev, cty) = self.pick(existing)
            ev = self.emit({"e": "load_node", "r": r.id, "c": cev})
            self.add_node(r, ev, [cty])
            self.classes.add("const-loaded-again")
            return True
        if self.coin(1, 3):
            reg = self.pick(self.const_parents(r))
            cev = self.emit({"e": "const", "r": reg.id, "v": v})
            reg.consts.append((cev, ref.ref_typeof(v)))
            if reg.kind == "D":
                reg.nodes.append(cev)
                reg.dep.setdefault(cev, set())
            return True
        cps = self.const_parents(r)
        cp = self.pick(cps) if self.coin() else r
        ev = self.emit({"e": "load", "r": r.id, "v": v, "cp": None if cp is r else cp.id})
        self.add_node(r, ev, [ref.ref_typeof(v)])
        self.classes.add("load-const")
        if cp is not r:
            self.classes.add("const-in-ancestor")
        return True

    def callable_funcs(self, r: Region):
        root = r.detached_root
        out = []
        for f in self.funcs:
            if f["detached_root"] != root or not f["callable"]:
                continue
            # the function node must be in an ancestor-or-self region of r (static Ext edge) or a sibling
            cur = r
            ok = False
            while cur is not None:
                if cur.id == f["region"]:
                    ok = True
                    break
                cur = self.regions.get(cur.parent) if cur.parent is not None else None
            if ok:
                out.append(f)
        return out

    def instr_call(self, r: Region):
        fs = self.callable_funcs(r)
        if not fs:
            return False
        f = self.pick(fs)
        load = self.coin(1, 4)
        targs = None
        i, o = f["i"], f["o"]
        if f["params"]:
            targs = []
            for p in f["params"]:
                if p["k"] == "type":
                    t = self.type_from_pool(r, copy_only=(p["b"] == "C"))
                    targs.append({"k": "type", "t": t})
                elif p["k"] == "list" and p["p"]["k"] == "type":
                    n = self.d(st.sampled_from([0, 1, 2]))
                    targs.append({"k": "seq", "es": [{"k": "type", "t": self.type_from_pool(r, copy_only=(p["p"]["b"] == "C"))} for _ in range(n)]})
                else:
                    targs.append(self.d(asts.arg_for_param(p, 1)))
            try:
                i, o = ref.subst_row(f["i"], targs), ref.subst_row(f["o"], targs)
            except (ValueError, KeyError, IndexError):
                return False
            if len(i) != len(f["i"]) or len(o) != len(f["o"]):
                self.classes.add("arity-changing-instantiation")
            self.classes.add("polymorphic-call")
        if load:
            ev = self.emit({"e": "load_func", "r": r.id, "f": f["ev"], "targs": targs, "sig": {"params": f["params"], "i": f["i"], "o": f["o"], "reqs": f.get("reqs", [])}})
            self.add_node(r, ev, [{"k": "fn", "i": i, "o": o, "reqs": f.get("reqs", [])}])
            self.classes.add("load-function")
            return True
        items = self.realise_row(r, i)
        ev = len(self.events)
        args = [self.use(r, it, ev) for it in items]
        self.emit({"e": "call", "r": r.id, "f": f["ev"], "args": args, "targs": targs, "sig": {"params": f["params"], "i": f["i"], "o": f["o"], "reqs": f.get("reqs", [])}})
        self.add_node(r, ev, list(o))
        f["calls"] = f.get("calls", 0) + 1
        if f["calls"] >= 2:
            self.classes.add("function-called-twice")
        self.classes.add("call")
        return True

    def instr_order(self, r: Region):
        keys = ["in"] + r.nodes + ["out"]
        if len(keys) < 3:
            return False
        a = self.pick(keys[:-1])
        b = self.pick(keys[1:])
        if self.flags.get("call_bias"):
            # prefer order edges that touch a call / function load (their order ports sit after a static port)
            cl = [k for k in r.nodes if isinstance(k, int) and self.events[k].get("e") in ("call", "load_func")]
            if cl and self.coin(2, 3):
                if self.coin():
                    b = self.pick(cl)
                else:
                    a = self.pick(cl)
        if a == b or a == "out" or b == "in":
            return False
        # Const / FuncDefn children have no order ports
        no_order = {c for c, _ in r.consts} | {f["ev"] for f in self.funcs if f["region"] == r.id}
        if a in no_order or b in no_order:
            return False
        if self.reach(r, b, a):
            return False
        r.dep.setdefault(a, set()).add(b)

        def nref(k):
            return {"in": r.id} if k == "in" else {"out": r.id} if k == "out" else {"n": k}

        self.emit({"e": "order", "r": r.id, "a": nref(a), "b": nref(b)})
        self.classes.add("explicit-order-edge")
        if isinstance(b, int) and a != "in" and b not in r.extra.get("to_out", set()) and self.coin(2, 3):
            # ... and the successor in turn ordered before the region's Output (a chain a -> b -> Output)
            r.extra.setdefault("to_out", set()).add(b)
            self.emit({"e": "order", "r": r.id, "a": nref(b), "b": nref("out")})
        return True

    # ------------------------------------------------------------------ containers
    def open_nested(self, r: Region):
        items = self.choose_inputs(r, self.d(st.integers(0, 3)))
        ev = len(self.events)
        args = [self.use(r, it, ev) for it in items]
        self.emit({"e": "nested", "r": r.id, "args": args})
        r.nodes.append(ev)
        r.dep.setdefault(ev, set())
        self.new_region("D", "nested", r.id, ev, [it[0]["ty"] for it in items], tvars=r.tvars, detached_root=r.detached_root)
        self.budget -= 1
        self.classes.add("nested-dfg")
        return True

    def open_loop(self, r: Region):
        just = self.choose_inputs(r, self.d(st.integers(0, 2)))
        taken = {id(it[0]) for it in just if it[0]["lin"]}
        rest = [it for it in self.choose_inputs(r, self.d(st.integers(0, 2))) if not (it[0]["lin"] and id(it[0]) in taken)]
        ev = len(self.events)
        ja = [self.use(r, it, ev) for it in just]
        ra = [self.use(r, it, ev) for it in rest]
        self.emit({"e": "loop", "r": r.id, "just": ja, "rest": ra})
        r.nodes.append(ev)
        r.dep.setdefault(ev, set())
        jt, rt = [it[0]["ty"] for it in just], [it[0]["ty"] for it in rest]
        reg = self.new_region("D", "loop", r.id, ev, jt + rt, tvars=r.tvars, detached_root=r.detached_root)
        reg.extra.update(just=jt, rest=rt)
        self.budget -= 1
        self.classes.add("tail-loop")
        return True

    def open_cond(self, r: Region):
        use_if = self.coin(1, 3)
        if use_if:
            rows = [[], []]
            sum_t = B
        else:
            rows = [self.row_from_pool(r, 2) for _ in range(self.d(st.integers(1, 3)))]
            sum_t = {"k": "sum", "rows": rows}
        s_item = self.realise(r, sum_t, set())
        taken = {id(s_item[0])} if s_item[0]["lin"] else set()
        others = [it for it in self.choose_inputs(r, self.d(st.integers(0, 2))) if not (it[0]["lin"] and id(it[0]) in taken)]
        ev = len(self.events)
        sw = self.use(r, s_item, ev)
        oa = [self.use(r, it, ev) for it in others]
        ot = [it[0]["ty"] for it in others]
        # the sum wire's own representation decides the rows the builder sees
        rows = rows_of(s_item[0]["ty"])
        if use_if:
            self.emit({"e": "if", "r": r.id, "cond": sw, "args": oa})
        else:
            self.emit({"e": "cond", "r": r.id, "sum": sw, "args": oa})
        r.nodes.append(ev)
        r.dep.setdefault(ev, set())
        c = self.new_region("cond", "if" if use_if else "cond", r.id, ev, [], tvars=r.tvars, detached_root=r.detached_root)
        c.extra.update(rows=rows, others=ot, todo=list(range(len(rows))), outs=None, use_if=use_if)
        if use_if:
            # add_if opens case 1 at once
            c.extra["todo"].remove(1)
            self.new_region("D", "case", c.id, ev, list(rows[1]) + ot, tvars=r.tvars, detached_root=r.detached_root, rid=f"{ev}i")
        self.budget -= 1
        self.classes.add("conditional")
        return True

    def open_case(self, c: Region):
        if not c.extra["todo"]:
            return False
        i = self.pick(c.extra["todo"])
        c.extra["todo"].remove(i)
        if c.extra["use_if"]:
            ev = self.emit({"e": "else", "if": c.id})
        else:
            ev = self.emit({"e": "case", "c": c.id, "i": i})
        reg = self.new_region("D", "case", c.id, c.node, list(c.extra["rows"][i]) + c.extra["others"], tvars=c.tvars, detached_root=c.detached_root, rid=ev)
        reg.required = c.extra["outs"]
        return True

    # ---- CFG (planned structure, realised with interleaving)
    def open_cfg(self, r: Region):
        items = self.choose_inputs(r, self.d(st.integers(0, 2)))
        ev = len(self.events)
        args = [self.use(r, it, ev) for it in items]
        self.emit({"e": "cfg", "r": r.id, "args": args})
        r.nodes.append(ev)
        r.dep.setdefault(ev, set())
        c = self.new_region("cfg", "cfg", r.id, ev, [it[0]["ty"] for it in items], tvars=r.tvars, detached_root=r.detached_root)
        self.plan_cfg(c, r)
        self.budget -= 1
        self.classes.add("cfg")
        return True

    def plan_cfg(self, c: Region, scope: Region | None):
        n = self.d(st.integers(1, 4))
        exit_row = self.row_from_pool(scope, 2)
        rows = {0: list(c.ins)}
        for b in range(1, n):
            rows[b] = self.row_from_pool(scope, 2)
        rows["exit"] = exit_row
        succ = {b: [] for b in range(n)}
        # spanning tree: every block reachable
        for b in range(1, n):
            succ[self.d(st.integers(0, b - 1))].append(b)
        # exit reachable from the last block of some chain; extra edges
        succ[self.d(st.integers(0, n - 1))].append("exit")
        for b in range(n):
            for _ in range(self.d(st.integers(0, 1))):
                succ[b].append(self.pick(list(range(n)) + ["exit"]))
            if not succ[b]:
                succ[b].append(self.pick(list(range(n)) + ["exit"]))
            # shuffle successor order
            succ[b] = self.d(st.permutations(succ[b]))
        blocks = {}
        for b in range(n):
            tg = [rows[s] for s in succ[b]]
            # other_outputs = a common suffix of all target rows (possibly empty)
            k = 0
            while all(len(t) > k for t in tg) and len({tkey(t[len(t) - 1 - k]) for t in tg}) == 1:
                k += 1
            k = self.d(st.integers(0, k))
            others = tg[0][len(tg[0]) - k :] if k else []
            sum_rows = [t[: len(t) - k] for t in tg]
            blocks[b] = {"ins": rows[b], "succ": succ[b], "sum_rows": sum_rows, "others": others, "region": None, "created": b == 0, "closed": False, "branched": [False] * len(succ[b]), "node": None}
        # dominators on the plan
        nodes = list(range(n))
        pred = {b: set() for b in nodes}
        for b in nodes:
            for s in succ[b]:
                if s != "exit":
                    pred[s].add(b)
        dom = {b: set(nodes) for b in nodes}
        dom[0] = {0}
        changed = True
        while changed:
            changed = False
            for b in nodes[1:]:
                ps = [dom[p] for p in pred[b]]
                new = (set.intersection(*ps) if ps else set()) | {b}
                if new != dom[b]:
                    dom[b] = new
                    changed = True
        c.extra.update(blocks=blocks, dom=dom, exit_row=exit_row, entry_opened=False, n=n)

    def cfg_actions(self, c: Region):
        acts = []
        bl = c.extra["blocks"]
        if not c.extra["entry_opened"]:
            acts.append(("entry",))
        for b, blk in bl.items():
            if not blk["created"]:
                acts.append(("add_block", b))
                # add_successor from a closed predecessor whose edge to b is not yet made
                for p, pb in bl.items():
                    if pb["closed"]:
                        for k, s in enumerate(pb["succ"]):
                            if s == b and not pb["branched"][k]:
                                acts.append(("successor", p, k, b))
            elif blk["region"] is None and b != 0:
                acts.append(("open_block", b))
            for k, s in enumerate(blk["succ"]):
                if blk["branched"][k] or not blk["created"] or blk["node"] is None:
                    continue
                if s == "exit":
                    if blk["closed"]:
                        acts.append(("branch", b, k))
                elif bl[s]["created"] and bl[s]["node"] is not None:
                    acts.append(("branch", b, k))
        return acts

    def cfg_step(self, c: Region):
        acts = self.cfg_actions(c)
        if not acts:
            return False
        a = self.pick(acts)
        bl = c.extra["blocks"]
        if a[0] == "entry":
            ev = self.emit({"e": "entry", "c": c.id})
            c.extra["entry_opened"] = True
            self.open_block_region(c, 0, ev)
            bl[0]["node"] = ev
        elif a[0] == "add_block":
            b = a[1]
            ev = self.emit({"e": "block", "c": c.id, "ins": bl[b]["ins"]})
            bl[b]["created"] = True
            bl[b]["node"] = ev
            self.open_block_region(c, b, ev)
        elif a[0] == "successor":
            _, p, k, b = a
            ev = self.emit({"e": "successor", "c": c.id, "pred": {"b": bl[p]["node"], "i": k}})
            bl[b]["created"] = True
            bl[b]["node"] = ev
            bl[p]["branched"][k] = True
            self.open_block_region(c, b, ev)
            self.classes.add("add-successor")
        elif a[0] == "branch":
            _, b, k = a
            s = bl[b]["succ"][k]
            self.emit({"e": "branch", "c": c.id, "src": {"b": bl[b]["node"], "i": k}, "dst": "exit" if s == "exit" else bl[s]["node"]})
            bl[b]["branched"][k] = True
        else:
            return False
        return True

    def open_block_region(self, c: Region, b, ev):
        blk = c.extra["blocks"][b]
        reg = self.new_region("D", "block", c.id, ev, list(blk["ins"]), tvars=c.tvars, detached_root=c.detached_root, rid=ev)
        reg.extra["bid"] = b
        reg.required = [{"k": "sum", "rows": blk["sum_rows"]}] + list(blk["others"])
        blk["region"] = ev

    def cfg_done(self, c: Region) -> bool:
        bl = c.extra["blocks"]
        return c.extra["entry_opened"] and all(b["created"] and b["closed"] and all(b["branched"]) for b in bl.values())

    # ---- functions / module level
    def define_function(self, holder: Region):
        poly = self.coin(1, 3)
        ps = []
        if poly:
            ps = self.d(st.lists(st.one_of(st.sampled_from(asts.BOUNDS).map(lambda b: {"k": "type", "b": b}), st.just({"k": "nat", "max": 7})), min_size=1, max_size=2))
        tmp = Region(None, "D", "func", None, None, [], ps)
        ins = self.row_from_pool(tmp, 3)
        declare = self.coin(2, 3)
        outs = self.row_from_pool(tmp, 2) if declare else None
        name = self.pick(["f", "main", "g", "ü"])
        ev = self.emit({"e": "func", "m": holder.id, "name": name, "ins": ins, "outs": outs, "params": ps})
        reg = self.new_region("D", "func", holder.id, ev, ins, tvars=ps or None, detached_root=holder.detached_root)
        reg.required = outs
        f = {"ev": ev, "params": ps, "i": ins, "o": outs, "reqs": [], "region": holder.id, "callable": outs is not None, "detached_root": holder.detached_root}
        self.funcs.append(f)
        reg.extra["func"] = f
        if holder.kind == "D":
            holder.nodes.append(ev)
            holder.dep.setdefault(ev, set())
        self.budget -= 1
        if poly:
            self.classes.add("polymorphic-function")
        if holder.kind == "D":
            self.classes.add("nested-function")
        return True

    def declare_function(self, m: Region):
        if self.coin():
            rp = self.d(asts.rowpoly_calls(1))
            ps, i, o = rp["params"], rp["i"], rp["o"]
        else:
            ps, i, o = self.d(asts.poly_sig(1))
        reqs = self.d(asts.REQS)
        ev = self.emit({"e": "decl", "name": self.pick(["ext_f", "d", "ü"]), "params": ps, "i": i, "o": o, "reqs": reqs})
        # callable only when every parameter kind is one we can instantiate and rows are node-compatible after substitution
        self.funcs.append({"ev": ev, "params": ps, "i": i, "o": o, "reqs": reqs, "region": m.id, "callable": True, "detached_root": m.detached_root})
        return True

    # ------------------------------------------------------------------ closing
    def close_region(self, r: Region):
        """Close D-region r: choose / realise the output row, consume leftover linear wires."""
        sub = r.sub
        if sub == "loop":
            just, rest = r.extra["just"], r.extra["rest"]
            # Sum(just_inputs, just_outputs): continue with new just values or break with free just_outputs
            if self.coin():
                jo = self.row_from_pool(r, 2)
                items = self.realise_row(r, just)
                op = {"k": self.pick(["Tag", "Continue"]), "l": just, "r": jo}
                if op["k"] == "Tag":
                    op = {"k": "Tag", "tag": 0, "rows": [just, jo]}
            else:
                items = self.choose_inputs(r, self.d(st.integers(0, 2)))
                jo = [it[0]["ty"] for it in items]
                op = {"k": self.pick(["Tag", "Break"]), "l": just, "r": jo}
                if op["k"] == "Tag":
                    op = {"k": "Tag", "tag": 1, "rows": [just, jo]}
            ev = len(self.events)
            args = [self.use(r, it, ev) for it in items]
            self.emit({"e": "op", "r": r.id, "op": op, "args": args, "mode": "add_op", "partial": False, "meta": None})
            sum_t = {"k": "either", "l": just, "r": jo} if op["k"] in ("Continue", "Break") else {"k": "sum", "rows": [just, jo]}
            sw = self.add_node(r, ev, [sum_t])[0]
            out_items = [(sw, "local", r, None)] + self.realise_row_excluding(r, rest, {id(sw)})
            r.extra["jo"] = jo
        elif r.required is not None:
            out_items = self.realise_row(r, r.required)
        else:
            out_items = self.choose_inputs(r, self.d(st.integers(0, 3)))
        taken = {id(it[0]) for it in out_items if it[0]["lin"]}
        # remaining linear wires: for free rows append them to the outputs, otherwise sink them
        left = [w for w in r.wires if w["lin"] and not w["used"] and id(w) not in taken]
        if left and r.required is None and sub != "loop":
            out_items += [(w, "local", r, None) for w in left]
            left = []
        if left:
            op = {"k": "Custom", "ext": "gen.ext", "name": "sink", "i": [w["ty"] for w in left], "o": [], "reqs": [], "desc": "", "args": []}
            ev = len(self.events)
            args = [self.use(r, (w, "local", r, None), ev) for w in left]
            self.emit({"e": "op", "r": r.id, "op": op, "args": args, "mode": "add_op", "partial": False, "meta": None})
            self.add_node(r, ev, [])
        outs = [self.use(r, it, "out") for it in out_items]
        out_row = [it[0]["ty"] for it in out_items]
        mode = "set_outputs"
        if sub == "block":
            blk = self.regions[r.parent].extra["blocks"][r.extra["bid"]]
            blk["closed"] = True
            mode = self.pick(["set_outputs", "set_block_outputs"])
        elif sub == "loop":
            mode = self.pick(["set_outputs", "set_loop_outputs"])
        self.emit({"e": "close", "r": r.id, "outs": outs, "mode": mode})
        r.closed = True
        par = self.regions.get(r.parent) if r.parent is not None else None
        if par is not None:
            par.open_children -= 1
        # make the container's outputs available in the parent D-region
        if sub == "nested" and par is not None:
            self.container_outputs(par, r.node, out_row)
        elif sub == "loop" and par is not None:
            self.container_outputs(par, r.node, r.extra["jo"] + r.extra["rest"])
        elif sub == "case":
            c = par
            if c.extra["outs"] is None:
                c.extra["outs"] = out_row
                for reg in self.regions.values():
                    if reg.parent == c.id and not reg.closed:
                        reg.required = out_row
        elif sub == "func":
            f = r.extra["func"]
            if f["o"] is None:
                f["o"] = out_row
            f["callable"] = True
        r.extra["out_row"] = out_row

    def realise_row_excluding(self, r, row, taken_ids):
        taken = set(taken_ids)
        items = []
        for t in row:
            it = self.realise(r, t, taken)
            if it[0]["lin"]:
                taken.add(id(it[0]))
            items.append(it)
        return items

    def container_outputs(self, par: Region, node_ev, out_row):
        if par.kind != "D":
            return
        for i, t in enumerate(out_row):
            par.wires.append({"ref": {"n": node_ev, "o": i}, "ty": t, "lin": is_lin(t), "used": False, "node": node_ev})

    def close_container(self, c: Region):
        """cond / cfg containers close implicitly once all their parts are done."""
        c.closed = True
        par = self.regions.get(c.parent) if c.parent is not None else None
        if par is not None:
            par.open_children -= 1
            if c.kind == "cond":
                self.container_outputs(par, c.node, c.extra["outs"] or [])
            else:
                self.container_outputs(par, c.node, c.extra["exit_row"])

    # ------------------------------------------------------------------ main loop
    def can_close(self, r: Region) -> bool:
        return r.open_children == 0 and not r.closed

    def step(self):
        open_regs = [r for r in self.regions.values() if not r.closed]
        if not open_regs:
            return False
        r = self.pick(open_regs)
        finishing = self.budget <= 0
        if r.kind == "module":
            if finishing or (r.n_instr >= 1 and self.coin(1, 4)):
                if r.open_children == 0:
                    r.closed = True
                return True
            k = self.pick(["func", "func", "decl", "const", "alias"] + (["decl", "decl", "func"] if self.flags.get("call_bias") else []))
            r.n_instr += 1
            if k == "func":
                return self.define_function(r)
            if k == "decl":
                return self.declare_function(r)
            if k == "const":
                v = self.d(asts.values(1))
                cev = self.emit({"e": "const", "r": r.id, "v": v})
                r.consts.append((cev, ref.ref_typeof(v)))
                return True
            op = self.d(asts.op_asts(1, kinds=["AliasDecl", "AliasDefn"]))
            self.emit({"e": "alias", "r": r.id, "op": op})
            return True
        if r.kind == "cond":
            if r.extra["todo"]:
                return self.open_case(r)
            if r.open_children == 0:
                self.close_container(r)
                return True
            return False
        if r.kind == "cfg":
            if self.cfg_step(r):
                return True
            if r.open_children == 0 and self.cfg_done(r):
                self.close_container(r)
                return True
            return False
        # D-region
        if self.can_close(r) and (finishing or (self.coin(1, 5) and r.n_instr >= 1) or r.n_instr > 8):
            if r.id == ROOT and any(not x.closed for x in self.regions.values() if x is not r):
                return False
            self.close_region(r)
            return True
        if finishing:
            return False
        choices = ["op"] * 6 + ["load", "order", "order"]
        if self.callable_funcs(r):
            choices += ["call"] * (20 if self.flags.get("call_bias") else 5)
            if self.flags.get("call_bias"):
                choices += ["order"] * 8
        depth = 0
        cur = r
        while cur.parent is not None:
            depth += 1
            cur = self.regions[cur.parent]
        if depth < self.flags["max_depth"]:
            choices += ["nested", "cond", "cond", "loop", "cfg", "cfg", "func"]
            if self.flags.get("detached", True):
                choices += ["detached"]
        k = self.pick(choices)
        if k == "op":
            return self.instr_op(r)
        if k == "load":
            return self.instr_load(r)
        if k == "call":
            return self.instr_call(r)
        if k == "order":
            return self.instr_order(r)
        if k == "nested":
            return self.open_nested(r)
        if k == "cond":
            return self.open_cond(r)
        if k == "loop":
            return self.open_loop(r)
        if k == "cfg":
            return self.open_cfg(r)
        if k == "func":
            return self.define_function(r)
        if k == "detached":
            return self.open_detached(r)
        return False

    # ------------------------------------------------------------------ detached builders + insert_*
    def open_detached(self, r: Region):
        kind = self.pick(["dfg", "dfg", "cfg", "cond", "loop"])
        ev = len(self.events)
        if kind == "dfg":
            ins = self.row_from_pool(None, 3)
            ins = [t for t in ins if closed_type(t)]
            self.emit({"e": "detached", "kind": "dfg", "ins": ins, "host": r.id})
            reg = self.new_region("D", "nested", None, ev, ins, detached_root=ev)
            reg.extra["host"] = r.id
        elif kind == "loop":
            just = [t for t in self.row_from_pool(None, 2) if closed_type(t)]
            rest = [t for t in self.row_from_pool(None, 2) if closed_type(t)]
            self.emit({"e": "detached", "kind": "loop", "just": just, "rest": rest, "host": r.id})
            reg = self.new_region("D", "loop", None, ev, just + rest, detached_root=ev)
            reg.extra.update(just=just, rest=rest, host=r.id)
        elif kind == "cond":
            rows = [[t for t in self.row_from_pool(None, 2) if closed_type(t)] for _ in range(self.d(st.integers(1, 3)))]
            others = [t for t in self.row_from_pool(None, 2) if closed_type(t)]
            self.emit({"e": "detached", "kind": "cond", "rows": rows, "others": others, "host": r.id})
            reg = self.new_region("cond", "cond", None, ev, [], detached_root=ev)
            reg.extra.update(rows=rows, others=others, todo=list(range(len(rows))), outs=None, use_if=False, host=r.id)
        else:
            ins = [t for t in self.row_from_pool(None, 2) if closed_type(t)]
            self.emit({"e": "detached", "kind": "cfg", "ins": ins, "host": r.id})
            reg = self.new_region("cfg", "cfg", None, ev, ins, detached_root=ev)
            self.plan_cfg(reg, None)
            reg.extra["host"] = r.id
        reg.extra["detached_kind"] = kind
        r.extra.setdefault("pending_detached", []).append(ev)
        r.open_children += 1  # host cannot close before the insert
        self.budget -= 1
        self.classes.add("detached-builder")
        return True

    def try_inserts(self):
        """Insert every closed detached builder into its host region."""
        done = False
        for reg in list(self.regions.values()):
            if reg.detached_root != reg.id or reg.parent is not None or not reg.closed or reg.extra.get("inserted"):
                continue
            host = self.regions[reg.extra["host"]]
            if host.closed:
                continue
            kind = reg.extra["detached_kind"]
            if kind == "dfg":
                items = self.realise_row(host, reg.ins)
                ev = len(self.events)
                args = [self.use(host, it, ev) for it in items]
                self.emit({"e": "insert", "r": host.id, "d": reg.id, "kind": "dfg", "args": args})
                outs = reg.extra["out_row"]
            elif kind == "loop":
                items = self.realise_row(host, reg.extra["just"] + reg.extra["rest"])
                ev = len(self.events)
                args = [self.use(host, it, ev) for it in items]
                nj = len(reg.extra["just"])
                self.emit({"e": "insert", "r": host.id, "d": reg.id, "kind": "loop", "just": args[:nj], "rest": args[nj:]})
                outs = reg.extra["jo"] + reg.extra["rest"]
            elif kind == "cond":
                items = self.realise_row(host, [{"k": "sum", "rows": reg.extra["rows"]}] + reg.extra["others"])
                ev = len(self.events)
                args = [self.use(host, it, ev) for it in items]
                self.emit({"e": "insert", "r": host.id, "d": reg.id, "kind": "cond", "sum": args[0], "args": args[1:]})
                outs = reg.extra["outs"] or []
            else:
                items = self.realise_row(host, reg.ins)
                ev = len(self.events)
                args = [self.use(host, it, ev) for it in items]
                self.emit({"e": "insert", "r": host.id, "d": reg.id, "kind": "cfg", "args": args})
                outs = reg.extra["exit_row"]
            host.nodes.append(ev)
            host.dep.setdefault(ev, set())
            for it in items:
                if it[1] == "local":
                    host.dep.setdefault(it[0]["node"], set()).add(ev)
            self.container_outputs(host, ev, outs)
            host.open_children -= 1
            reg.extra["inserted"] = True
            self.classes.add("insert")
            done = True
        return done

    def run(self, root):
        steps = 0
        while any(not r.closed for r in self.regions.values()) and steps < 4000:
            steps += 1
            self.try_inserts()
            self.step()
        ok = not any(not r.closed for r in self.regions.values())
        return ok


META = st.one_of(st.none(), st.none(), st.none(), st.dictionaries(st.sampled_from(["name", "ü", "k", " k", "k\t", ""]), st.one_of(st.integers(-2, 2), st.text(max_size=3), st.none(), st.lists(st.integers(0, 2), max_size=2), st.booleans(), st.sampled_from([0.0, 1.0, 2.5])), min_size=1, max_size=2))


@st.composite
def programs(draw, size=12, max_depth=2, roots=("module", "dfg", "function", "cfg", "cond", "loop"), detached=True, call_bias=False, reuse_partial=False):
    g = Gen(draw, draw(st.integers(max(2, size // 3), size)), {"max_depth": max_depth, "detached": detached, "call_bias": call_bias, "reuse_partial": reuse_partial})
    kind = draw(st.sampled_from(list(roots)))
    if kind == "module":
        root = {"kind": "module"}
        g.new_region("module", "module", None, ROOT, [], rid=ROOT)
    elif kind == "dfg":
        ins = [t for t in g.row_from_pool(None, 3) if closed_type(t)]
        root = {"kind": "dfg", "ins": ins}
        g.new_region("D", "dfg", None, ROOT, ins, rid=ROOT)
    elif kind == "function":
        ps = draw(st.lists(st.sampled_from(asts.BOUNDS).map(lambda b: {"k": "type", "b": b}), max_size=2))
        tmp = Region(None, "D", "func", None, None, [], ps)
        ins = g.row_from_pool(tmp, 3)
        root = {"kind": "function", "name": "main", "ins": ins, "params": ps}
        reg = g.new_region("D", "func", None, ROOT, ins, tvars=ps or None, rid=ROOT)
        reg.extra["func"] = {"ev": ROOT, "params": ps, "i": ins, "o": None, "reqs": [], "region": None, "callable": False, "detached_root": None}
    elif kind == "cfg":
        ins = [t for t in g.row_from_pool(None, 2) if closed_type(t)]
        root = {"kind": "cfg", "ins": ins}
        c = g.new_region("cfg", "cfg", None, ROOT, ins, rid=ROOT)
        g.plan_cfg(c, None)
    elif kind == "cond":
        rows = [[t for t in g.row_from_pool(None, 2) if closed_type(t)] for _ in range(draw(st.integers(1, 3)))]
        others = [t for t in g.row_from_pool(None, 2) if closed_type(t)]
        root = {"kind": "cond", "rows": rows, "others": others}
        c = g.new_region("cond", "cond", None, ROOT, [], rid=ROOT)
        c.extra.update(rows=rows, others=others, todo=list(range(len(rows))), outs=None, use_if=False)
    else:
        just = [t for t in g.row_from_pool(None, 2) if closed_type(t)]
        rest = [t for t in g.row_from_pool(None, 2) if closed_type(t)]
        root = {"kind": "loop", "just": just, "rest": rest}
        reg = g.new_region("D", "loop", None, ROOT, just + rest, rid=ROOT)
        reg.extra.update(just=just, rest=rest)
    ok = g.run(root)
    # plain JSON tree (no shared sub-objects), so that cases can be edited and replayed faithfully
    return json.loads(json.dumps({"root": root, "events": g.events, "classes": sorted(g.classes), "complete": ok}))


def consistent(prog) -> bool:
    """Structural self-consistency of a program (used to reject candidates produced by the
    shrinker): every call / load_func event repeats the signature of the function event it names."""
    evs = prog.get("events", [])
    for ev in evs:
        if not isinstance(ev, dict) or "e" not in ev:
            return False
        if ev.get("same_as") is not None:
            j = ev["same_as"]
            if not isinstance(j, int) or not (0 <= j < len(evs)) or evs[j].get("e") != "op" or evs[j].get("op", {}).get("k") != ev.get("op", {}).get("k"):
                return False
            if evs[j]["op"] != ev["op"] and "partial-op-object-reused-with-other-types" not in prog.get("classes", []):
                return False
        if ev["e"] in ("call", "load_func"):
            f = ev.get("f")
            if not isinstance(f, int) or not (0 <= f < len(evs)):
                return False
            fe = evs[f]
            sig = ev.get("sig") or {}
            if fe.get("e") == "decl":
                if (fe.get("params"), fe.get("i"), fe.get("o")) != (sig.get("params"), sig.get("i"), sig.get("o")):
                    return False
            elif fe.get("e") == "func":
                if (fe.get("params"), fe.get("ins")) != (sig.get("params"), sig.get("i")):
                    return False
                if fe.get("outs") is not None and fe.get("outs") != sig.get("o"):
                    return False
            else:
                return False
            if sig.get("params") and (not isinstance(ev.get("targs"), list) or len(ev["targs"]) != len(sig["params"])):
                return False
    return True
