"""Shared runner: seeding, case collection, bucketing, shrinking, replay,
known findings, evidence and exit codes.  See DESIGN.md section 2.4.

A property module (vlib/props/cNN.py) exposes

    PROPERTY_ID, RULE (text), ASSUMPTIONS (list of str), SUBS (list of Sub)

Every Sub has a Hypothesis strategy (or an exhaustive enumerator) producing
*plain JSON data* cases and a `check(case)` function that executes the case
against the real package and returns a list of `Fail`s.  The same `check` is
used by generation, shrinking and replay.
"""

from __future__ import annotations

import hashlib
import json
import os
import sys
import time
import traceback
from collections import Counter
from dataclasses import dataclass, field
from typing import Any, Callable, Iterable

VERIF = os.path.dirname(os.path.dirname(os.path.abspath(__file__)))
REPO = os.environ.get("VERIF_REPO", "/repo")
REPO_SRC = os.path.join(REPO, "hugr-py", "src")


class CaseTimeout(BaseException):
    """A single case exceeded its wall-clock allowance: inconclusive, never a verdict."""


CASE_TIMEOUT_S = int(os.environ.get("VERIF_CASE_TIMEOUT", "60"))


def _alarm_handler(signum, frame):
    raise CaseTimeout()


def limit_resources():
    """Contain runaway cases (e.g. a mutated library looping or allocating without bound)."""
    import resource
    import signal

    try:
        lim = int(os.environ.get("VERIF_MEM_LIMIT_GB", "8")) * 1024**3
        resource.setrlimit(resource.RLIMIT_AS, (lim, lim))
    except (ValueError, OSError):
        pass
    signal.signal(signal.SIGALRM, _alarm_handler)


def guarded(fn, *a):
    """Run fn(*a) under the per-case alarm."""
    import signal

    signal.alarm(CASE_TIMEOUT_S)
    try:
        return fn(*a)
    finally:
        signal.alarm(0)


class InvalidCase(Exception):
    """The case is not executable (only arises while shrinking / bad replay)."""


class HarnessError(Exception):
    """The harness itself misbehaved; never a verdict."""


@dataclass
class Fail:
    clause: str  # oracle sub-check that failed
    locus: str  # normalised location identifying the root cause
    msg: str = ""

    def bucket(self, prop: str) -> str:
        return f"{prop}/{self.clause}/{self.locus}"


@dataclass
class Sub:
    name: str
    check: Callable[[Any], list[Fail]]
    strategy: Callable[[str], Any] | None = None  # tier -> hypothesis strategy
    enumerate: Callable[[str], Iterable[Any]] | None = None  # tier -> cases
    nontrivial: Callable[[Any], bool] = lambda case: True
    classes: Callable[[Any], Iterable[str]] = lambda case: ()
    n_quick: int = 300
    n_thorough: int = 3000  # per shard
    exhaustive: bool = False
    budget_quick: float = 150.0  # wall-clock stop for generation (never a verdict)
    budget_thorough: float = 1500.0
    shardable: bool = True  # exhaustive subs run on shard 0 only unless they shard themselves
    machine: Callable[[Callable[[Any], None]], Any] | None = None  # stateful generator
    sample_ok: Callable[[Any], bool] = lambda case: True
    fuzz_runs: int = 0  # thorough tier: inputs per coverage-guided worker (vlib/fuzz.py); 0 = no such stage


def canon(case: Any) -> str:
    return json.dumps(case, sort_keys=True, separators=(",", ":"), ensure_ascii=True, default=repr)


def chash(case: Any) -> str:
    return hashlib.sha1(canon(case).encode()).hexdigest()[:14]


def derive_seed(*parts: Any) -> int:
    h = hashlib.sha256(":".join(str(p) for p in parts).encode()).hexdigest()
    return int(h[:8], 16)


def exc_locus(e: BaseException) -> tuple[bool, str]:
    """(entered_repo, 'Type@file:function') using the innermost frame inside the
    package under test."""
    tb = traceback.extract_tb(e.__traceback__)
    inner = None
    for fr in tb:
        fn = fr.filename
        if "/hugr/" in fn and (fn.startswith(REPO_SRC) or "/hugr-py/src/" in fn):
            inner = fr
    if inner is None:
        return False, type(e).__name__
    short = inner.filename.split("/src/hugr/")[-1]
    return True, f"{type(e).__name__}@{short}:{inner.name}"


def exc_fail(clause: str, e: BaseException) -> Fail:
    """Turn an unexpected exception raised by the code under test into a Fail."""
    entered, locus = exc_locus(e)
    if not entered:
        raise e
    return Fail(clause, locus, f"{type(e).__name__}: {e}"[:300])


class Collector:
    def __init__(self, prop: str):
        self.prop = prop
        self.evaluations = 0
        self.nt_hashes: set[str] = set()
        self.all_hashes: set[str] = set()
        self.samples: list[Any] = []
        self.classes: Counter = Counter()
        self.per_sub: dict[str, dict[str, int]] = {}
        self.failures: dict[str, dict] = {}  # bucket -> {size, sub, case, msg, count}
        self.invalid = 0
        self.harness_errors: list[str] = []
        self.budget_stopped: dict[str, int] = {}
        self.exhaustive: dict[str, bool] = {}
        self.timeouts = 0

    def run_case(self, sub: Sub, case: Any) -> list[Fail]:
        try:
            fails = guarded(sub.check, case)
        except InvalidCase:
            self.invalid += 1
            return []
        except (CaseTimeout, MemoryError):
            self.timeouts += 1
            return []
        except HarnessError as e:
            self.harness_errors.append(f"{sub.name}: {e}")
            return []
        except Exception as e:  # noqa: BLE001
            entered, locus = exc_locus(e)
            if not entered:
                self.harness_errors.append(
                    f"{sub.name}: {type(e).__name__}: {e}\n" + "".join(traceback.format_exception(e))[-1500:]
                )
                return []
            fails = [Fail("exception", locus, f"{type(e).__name__}: {e}"[:300])]
        self.evaluations += 1
        ps = self.per_sub.setdefault(sub.name, {"evaluations": 0, "nontrivial_distinct": 0, "failing": 0})
        ps["evaluations"] += 1
        h = chash({"s": sub.name, "c": case})
        self.all_hashes.add(h)
        try:
            nt = bool(sub.nontrivial(case))
        except Exception as e:  # noqa: BLE001
            self.harness_errors.append(f"{sub.name}: nontrivial(): {type(e).__name__}: {e}")
            nt = False
        if nt and h not in self.nt_hashes:
            self.nt_hashes.add(h)
            ps["nontrivial_distinct"] += 1
            if len([s for s in self.samples if s["sub"] == sub.name]) < 2 and len(canon(case)) < 4000 and sub.sample_ok(case):
                self.samples.append({"sub": sub.name, "case": case})
        try:
            for c in sub.classes(case):
                self.classes[f"{sub.name}:{c}"] += 1
        except Exception as e:  # noqa: BLE001
            self.harness_errors.append(f"{sub.name}: classes(): {type(e).__name__}: {e}")
        if fails:
            ps["failing"] += 1
            size = len(canon(case))
            seen = set()
            for f in fails:
                b = f.bucket(self.prop)
                if b in seen:
                    continue
                seen.add(b)
                cur = self.failures.get(b)
                if cur is None:
                    self.failures[b] = {"size": size, "sub": sub.name, "case": case, "msg": f.msg, "count": 1}
                else:
                    cur["count"] += 1
                    if size < cur["size"]:
                        cur.update(size=size, sub=sub.name, case=case, msg=f.msg)
        return fails

    # -- (de)serialisation for shards
    def to_dict(self) -> dict:
        return {
            "evaluations": self.evaluations,
            "nt": sorted(self.nt_hashes),
            "samples": self.samples,
            "classes": dict(self.classes),
            "per_sub": self.per_sub,
            "failures": self.failures,
            "invalid": self.invalid,
            "harness_errors": self.harness_errors,
            "budget_stopped": self.budget_stopped,
            "exhaustive": self.exhaustive,
            "timeouts": self.timeouts,
        }

    def merge(self, d: dict) -> None:
        self.evaluations += d["evaluations"]
        new_nt = set(d["nt"])
        self.nt_hashes |= new_nt
        for s in d["samples"]:
            if len([x for x in self.samples if x["sub"] == s["sub"]]) < 2:
                self.samples.append(s)
        self.classes.update(d["classes"])
        for k, v in d["per_sub"].items():
            ps = self.per_sub.setdefault(k, {"evaluations": 0, "nontrivial_distinct": 0, "failing": 0})
            for kk, vv in v.items():
                ps[kk] = ps.get(kk, 0) + vv
        for b, f in d["failures"].items():
            cur = self.failures.get(b)
            if cur is None:
                self.failures[b] = dict(f)
            else:
                cur["count"] += f["count"]
                if f["size"] < cur["size"]:
                    cur.update(size=f["size"], sub=f["sub"], case=f["case"], msg=f["msg"])
        self.invalid += d["invalid"]
        self.timeouts += d.get("timeouts", 0)
        self.harness_errors += d["harness_errors"]
        for k, v in d["budget_stopped"].items():
            self.budget_stopped[k] = self.budget_stopped.get(k, 0) + v
        for k, v in d["exhaustive"].items():
            self.exhaustive[k] = self.exhaustive.get(k, True) and v


def drive_sub(sub: Sub, tier: str, seed: int, shard: int, nshards: int, col: Collector) -> None:
    """Generate cases for one sub-check and feed them to the collector."""
    budget = sub.budget_quick if tier == "quick" else sub.budget_thorough
    t0 = time.monotonic()
    if sub.enumerate is not None:
        complete = True
        for i, case in enumerate(sub.enumerate(tier)):
            if sub.shardable and nshards > 1 and i % nshards != shard:
                continue
            if not sub.shardable and shard != 0:
                break
            if time.monotonic() - t0 > budget:
                col.budget_stopped[sub.name] = col.budget_stopped.get(sub.name, 0) + 1
                complete = False
                break
            col.run_case(sub, case)
        col.exhaustive[sub.name] = complete
        if sub.strategy is None and sub.machine is None:
            return
    n = sub.n_quick if tier == "quick" else sub.n_thorough
    if n <= 0:
        return
    import hypothesis
    from hypothesis import HealthCheck, Phase, Verbosity, given, settings

    sseed = derive_seed(os.environ.get("VERIF_SEED", "1"), col.prop, sub.name, shard)
    sett = settings(
        max_examples=n,
        database=None,
        deadline=None,
        derandomize=False,
        report_multiple_bugs=False,
        suppress_health_check=list(HealthCheck),
        phases=[Phase.generate],
        verbosity=Verbosity.quiet,
        stateful_step_count=50,
    )
    stopped = [0]

    def feed(case: Any) -> None:
        if time.monotonic() - t0 > budget:
            stopped[0] += 1
            return
        col.run_case(sub, case)

    if sub.machine is not None:
        from hypothesis.stateful import run_state_machine_as_test

        cls = sub.machine(feed)
        run_state_machine_as_test(hypothesis.seed(sseed)(cls), settings=sett)
    if sub.strategy is not None:
        strat = sub.strategy(tier)

        @hypothesis.seed(sseed)
        @sett
        @given(strat)
        def t(case):
            feed(case)

        t()
    if stopped[0]:
        col.budget_stopped[sub.name] = col.budget_stopped.get(sub.name, 0) + stopped[0]


# ---------------------------------------------------------------- shrinking


def _paths(x: Any, p=()):
    yield p, x
    if isinstance(x, list):
        for i, v in enumerate(x):
            yield from _paths(v, p + (i,))
    elif isinstance(x, dict):
        for k, v in x.items():
            yield from _paths(v, p + (k,))


def _get(x, p):
    for k in p:
        x = x[k]
    return x


def _set(x, p, v):
    if not p:
        return v
    x = json.loads(json.dumps(x))
    y = x
    for k in p[:-1]:
        y = y[k]
    y[p[-1]] = v
    return x


def shrink_case(sub: Sub, prop: str, case: Any, bucket: str, budget_s: float) -> Any:
    """Structural delta debugging of a JSON case; keeps the failure bucket."""
    t0 = time.monotonic()

    def still(c) -> bool:
        try:
            fs = guarded(sub.check, c)
        except InvalidCase:
            return False
        except (CaseTimeout, MemoryError):
            return False
        except Exception as e:  # noqa: BLE001
            entered, locus = exc_locus(e)
            if not entered:
                return False
            fs = [Fail("exception", locus)]
        return any(f.bucket(prop) == bucket for f in fs)

    cur = json.loads(canon(case))
    if not still(cur):
        return case
    improved = True
    while improved and time.monotonic() - t0 < budget_s:
        improved = False
        # 1. delete chunks of lists (largest lists first)
        lists = [(p, v) for p, v in _paths(cur) if isinstance(v, list) and v]
        lists.sort(key=lambda pv: -len(canon(pv[1])))
        for p, v in lists:
            if time.monotonic() - t0 > budget_s:
                break
            try:
                v = _get(cur, p)
            except (KeyError, IndexError, TypeError):
                continue
            if not isinstance(v, list):
                continue
            chunk = max(1, len(v) // 2)
            while chunk >= 1:
                i = 0
                while i < len(v):
                    if time.monotonic() - t0 > budget_s:
                        break
                    cand_list = v[:i] + v[i + chunk :]
                    cand = _set(cur, p, cand_list)
                    if still(cand):
                        cur, v, improved = cand, cand_list, True
                    else:
                        i += chunk
                chunk //= 2
        # 2. simplify scalars / replace subtrees by their children
        for p, v in list(_paths(cur)):
            if time.monotonic() - t0 > budget_s:
                break
            try:
                v = _get(cur, p)
            except (KeyError, IndexError, TypeError):
                continue
            cands: list[Any] = []
            if isinstance(v, bool):
                cands = [False] if v else []
            elif isinstance(v, int) and v not in (0,):
                cands = [0, v // 2] if abs(v) > 1 else [0]
            elif isinstance(v, str) and len(v) > 1:
                cands = ["", v[:1]]
            elif isinstance(v, dict):
                cands = [c for c in v.values() if isinstance(c, dict) and set(c) and ("k" in c) == ("k" in v)]
                if v and p:
                    cands.append(None)
            for c in cands:
                cand = _set(cur, p, c)
                if len(canon(cand)) < len(canon(cur)) and still(cand):
                    cur, improved = cand, True
                    break
    return cur


# ---------------------------------------------------------------- known findings


def load_known(prop: str) -> list[dict]:
    path = os.path.join(VERIF, "known_findings.json")
    if not os.path.exists(path):
        return []
    with open(path) as f:
        data = json.load(f)
    return [e for e in data.get("findings", []) if e.get("property") == prop]


def match_known(entries: list[dict], bucket: str, case: Any, requires: dict) -> dict | None:
    for e in entries:
        if e.get("status") != "open":
            continue
        if e.get("bucket") != bucket:
            continue
        req = e.get("requires")
        if req:
            pred = requires.get(req)
            if pred is None:
                continue
            try:
                if not pred(case):
                    continue
            except Exception:  # noqa: BLE001
                continue
        return e
    return None
