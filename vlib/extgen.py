"""Generated extensions (C09 / C10 / C11): AST strategy, interpreter and the
reference encoding of an extension document."""

from __future__ import annotations

from hypothesis import strategies as st

from vlib import asts, ref
from vlib.interp import bound, mk_param, mk_row, mk_value

JSONV = st.recursive(
    st.one_of(st.none(), st.booleans(), st.integers(-9, 9), st.text(max_size=4), st.sampled_from(["ü", "<b>", ""])),
    lambda c: st.one_of(st.lists(c, max_size=3), st.dictionaries(st.text(max_size=3), c, max_size=3)),
    max_leaves=6,
)
MISC = st.one_of(st.just({}), st.dictionaries(st.sampled_from(["k", "commutative", "ü"]), JSONV, max_size=2))
EXTN = st.sampled_from(["my.ext", "aaa", "zzz", "ext.b", "a.b.c"])


@st.composite
def opdef(draw, name):
    binary = draw(st.integers(0, 4)) == 0
    has_sig = (not binary) or draw(st.booleans())
    d = {"name": name, "binary": binary, "desc": draw(asts.DESCS), "misc": draw(MISC)}
    if has_sig:
        ps, i, o = draw(asts.poly_sig(1))
        d.update(params=ps, i=i, o=o, reqs=draw(asts.REQS))
    else:
        d.update(params=None)
    return d


@st.composite
def extensions(draw, name=None, max_defs=4, min_ops=0, min_types=0):
    nm = name or draw(EXTN)
    tnames = draw(st.lists(st.sampled_from(["T", "foo", "ü∀", "q", "My.Type"]), min_size=min_types, max_size=max_defs, unique=True))
    onames = draw(st.lists(st.sampled_from(["op", "Not", "x.y", "ü", "f", "g"]), min_size=min_ops, max_size=max_defs + 1, unique=True))
    vnames = draw(st.lists(st.sampled_from(["TRUE", "c", "ü"]), max_size=3, unique=True))
    types = []
    for tn in tnames:
        td = draw(asts.typedefs())
        td["ext"], td["name"] = nm, tn
        types.append(td)
    return {
        "name": nm,
        "version": draw(st.tuples(st.integers(0, 3), st.integers(0, 20), st.integers(0, 5)).map(list)),
        # a full semantic version now and then: pre-release and / or build identifiers
        "vsuffix": draw(st.sampled_from(["", "", "", "-rc.1", "+build.7", "-beta.2+exp.sha.5114f85"])),
        "reqs": draw(st.lists(EXTN, max_size=3, unique=True)),
        "types": types,
        "ops": [draw(opdef(on)) for on in onames],
        "values": [{"name": vn, "v": draw(asts.values(1))} for vn in vnames],
    }


def version_str(a) -> str:
    return ".".join(map(str, a["version"])) + a.get("vsuffix", "")


def mk_extension(a, probe=False):
    """probe=True serializes the extension after every addition (the result must not depend on
    when the extension was serialized before)."""
    import hugr.ext as ext
    import hugr.tys as tys
    from semver import Version

    e = ext.Extension(a["name"], Version.parse(version_str(a)), set(a["reqs"]))
    for td in a["types"]:
        b = td["bound"]
        bd = ext.ExplicitBound(bound(b["v"])) if b["b"] == "E" else ext.FromParamsBound(list(b["idx"]))
        e.add_type_def(ext.TypeDef(td["name"], td.get("desc", ""), [mk_param(p) for p in td["params"]], bd))
        if probe:
            e.to_json()
    for od in a["ops"]:
        if od["params"] is None:
            sig = ext.OpDefSig(None, True)
        else:
            pf = tys.PolyFuncType([mk_param(p) for p in od["params"]], tys.FunctionType(mk_row(od["i"]), mk_row(od["o"]), list(od["reqs"])))
            sig = ext.OpDefSig(pf, od["binary"])
        e.add_op_def(ext.OpDef(od["name"], sig, od["desc"], dict(od["misc"])))
        if probe:
            e.to_json()
    for v in a["values"]:
        if probe:
            e.to_json()
        e.add_extension_value(ext.ExtensionValue(v["name"], mk_value(v["v"])))
    return e


def enc_extension(a):
    """Reference document for an extension AST; runtime_reqs of op signatures
    are returned as *sets* under the key '__reqs' for order-insensitive comparison."""
    doc = {
        "version": version_str(a),
        "name": a["name"],
        "runtime_reqs": sorted(set(a["reqs"])),
        "types": {},
        "values": {},
        "operations": {},
    }
    for td in a["types"]:
        b = td["bound"]
        doc["types"][td["name"]] = {
            "extension": a["name"],
            "name": td["name"],
            "description": td.get("desc", ""),
            "params": [ref.enc_param(p) for p in td["params"]],
            "bound": {"b": "Explicit", "bound": b["v"]} if b["b"] == "E" else {"b": "FromParams", "indices": list(b["idx"])},
        }
    for od in a["ops"]:
        sig = None
        if od["params"] is not None:
            sig = ref.enc_poly(od["params"], {"i": od["i"], "o": od["o"], "reqs": sorted(set(od["reqs"]) | {a["name"]})})
        doc["operations"][od["name"]] = {
            "extension": a["name"],
            "name": od["name"],
            "description": od["desc"],
            "misc": od["misc"],
            "signature": sig,
            "binary": od["binary"],
            "lower_funcs": [],
        }
    for v in a["values"]:
        doc["values"][v["name"]] = {"extension": a["name"], "name": v["name"], "typed_value": ref.enc_value(v["v"])}
    return doc


def norm_ext_doc(d):
    """Normal form for comparison with enc_extension: set-valued fields sorted."""
    import copy

    d = copy.deepcopy(d)
    d["runtime_reqs"] = sorted(d["runtime_reqs"])
    for od in d["operations"].values():
        if od.get("signature"):
            od["signature"]["body"]["runtime_reqs"] = sorted(od["signature"]["body"]["runtime_reqs"])
    return ref.strip_nested_hugr(d)
