"""Sequential reference model of the HUGR graph store (a hierarchical port
multigraph), the raw-API history interpreter and the observation function
`obs` used by C02 / C04 / C08."""

from __future__ import annotations

import json
from collections import Counter

from hypothesis import strategies as st

from vlib.runner import Fail, InvalidCase

OP_POOL = ["dfg", "noop", "not", "mktuple", "custom", "input", "output", "tag", "divmod", "divmod6", "sink0", "src0", "directext"]


_DIRECT = []


def direct_ext_op():
    """An operation whose class implements the AsExtOp interface directly (neither ExtOp nor a registered
    op, no name() override), the way user code defines gate sets."""
    if not _DIRECT:
        from dataclasses import dataclass

        import hugr.ext as ext
        import hugr.ops as ops
        import hugr.tys as tys

        e = ext.Extension("verif.direct", ext.Version(0, 1, 0))
        d = e.add_op_def(ext.OpDef(name="Flip", description="flip", signature=ext.OpDefSig(tys.FunctionType.endo([tys.Bool]))))

        @dataclass(frozen=True)
        class Flip(ops.AsExtOp):
            def op_def(self):
                return d

        _DIRECT.append(Flip)
    return _DIRECT[0]()


def mk_pool_op(name):
    import hugr.ops as ops
    import hugr.tys as tys

    if name == "directext":
        return direct_ext_op()

    if name == "dfg":
        return ops.DFG([tys.Bool], [tys.Bool])
    if name == "noop":
        return ops.Noop(tys.Bool)
    if name == "not":
        from hugr.std.logic import Not

        return Not
    if name == "mktuple":
        return ops.MakeTuple([tys.Bool, tys.Qubit])
    if name == "custom":
        return ops.Custom("op", tys.FunctionType([tys.Bool], [tys.Bool, tys.Bool]), extension="my.ext")
    if name == "sink0":
        return ops.Custom("sink", tys.FunctionType([tys.Bool], []), extension="my.ext")
    if name == "src0":
        return ops.Custom("src", tys.FunctionType([], [tys.Bool]), extension="my.ext")
    if name == "input":
        return ops.Input([tys.Bool, tys.Bool])
    if name == "output":
        return ops.Output([tys.Bool])
    if name == "tag":
        return ops.Tag(0, tys.Sum([[tys.Bool], []]))
    if name == "divmod":
        from hugr.std.int import DivMod

        return DivMod
    if name == "divmod6":
        from hugr.std.int import _DivModDef

        return _DivModDef(6)  # the same registered op class with another type argument
    if name == "module":
        return ops.Module()
    if name == "const":
        import hugr.val as val

        return ops.Const(val.TRUE)
    raise InvalidCase(name)


def op_key(op) -> str:
    """Comparable description of an op object (encoded form)."""
    from hugr.hugr.node_port import Node
    from hugr.ops import IncompleteOp

    try:
        return json.dumps(json.loads(op._to_serial(Node(0)).model_dump_json()), sort_keys=True)
    except IncompleteOp:
        return "incomplete:" + repr(op)


class Model:
    def __init__(self, root_op: str):
        self.nodes: dict[int, dict] = {}
        self.links: list[tuple[int, int, int, int]] = []
        self.root = 0
        self.nodes[0] = {"op": root_op, "parent": None, "children": [], "req_outs": 0, "meta": {}, "min_in": 0, "min_out": 0}
        self.flags: set[str] = set()
        self.ever: set[int] = {0}

    def live(self):
        return sorted(self.nodes)

    def add(self, idx, op, parent, req_outs, meta):
        self.nodes[idx] = {"op": op, "parent": parent, "children": [], "req_outs": req_outs, "meta": dict(meta or {}), "min_in": 0, "min_out": req_outs or 0}
        self.nodes[parent]["children"].append(idx)
        if idx in self.ever:
            self.flags.add("index-reuse")
        self.ever.add(idx)

    def link(self, s, so, d, do):
        self.links.append((s, so, d, do))
        if so >= 0:
            self.nodes[s]["min_out"] = max(self.nodes[s]["min_out"], so + 1)
        if do >= 0:
            self.nodes[d]["min_in"] = max(self.nodes[d]["min_in"], do + 1)

    def multi(self, s, so, d, do) -> bool:
        return sum(1 for l in self.links if l[0] == s and l[1] == so) > 1 or sum(1 for l in self.links if l[2] == d and l[3] == do) > 1


def apply_step(h, m: Model, step, handles: dict) -> list[Fail]:
    """Execute one raw-API step on the real store `h` and on the model `m`.
    `handles` maps index -> Node handle as returned by the library."""
    from hugr.exceptions import ParentBeforeChild
    from hugr.hugr.node_port import InPort, Node, OutPort

    fails: list[Fail] = []
    try:
        kind = step[0]
    except (TypeError, IndexError) as e:
        raise InvalidCase from e
    live = m.live()

    def pick(sel):
        if not isinstance(sel, int):
            raise InvalidCase
        return live[sel % len(live)]

    if kind in ("add_node", "add_const"):
        if kind == "add_node":
            _, opn, psel, req, meta = step
            parent = pick(psel)
            n = h.add_node(mk_pool_op(opn), handles[parent], num_outs=req, metadata=meta)
        else:
            _, psel, meta = step
            opn, req = "const", None
            parent = pick(psel)
            import hugr.val as val

            n = h.add_const(val.TRUE, handles[parent], metadata=meta)
        if n.idx in m.nodes:
            return [Fail("add_node", "returned-live-index", f"index {n.idx} is live")]
        m.add(n.idx, opn, parent, req, meta)
        handles[n.idx] = n
    elif kind == "add_link":
        _, ssel, so, dsel, do = step
        s, d = pick(ssel), pick(dsel)
        h.add_link(OutPort(handles[s], so), InPort(handles[d], do))
        m.link(s, so, d, do)
        if m.multi(s, so, d, do):
            m.flags.add("multi-link")
    elif kind == "add_order_link":
        _, ssel, dsel = step
        s, d = pick(ssel), pick(dsel)
        h.add_order_link(handles[s], handles[d])
        if (s, -1, d, -1) not in m.links:
            m.link(s, -1, d, -1)
        else:
            m.flags.add("order-link-repeated")
        m.flags.add("order-link")
    elif kind == "delete_link":
        _, ssel, so, dsel, do = step
        s, d = pick(ssel), pick(dsel)
        h.delete_link(OutPort(handles[s], so), InPort(handles[d], do))
        if (s, so, d, do) in m.links:
            if m.multi(s, so, d, do):
                m.flags.add("delete-on-multi-port")
            m.links.remove((s, so, d, do))
            m.flags.add("delete-link")
    elif kind == "delete_existing_link":
        if m.links:
            s, so, d, do = m.links[step[1] % len(m.links)]
            h.delete_link(OutPort(handles[s], so), InPort(handles[d], do))
            if m.multi(s, so, d, do):
                m.flags.add("delete-on-multi-port")
            m.links.remove((s, so, d, do))
            m.flags.add("delete-link")
    elif kind == "delete_node":
        cands = [i for i in live if i != m.root and not m.nodes[i]["children"]]
        if cands:
            i = cands[step[1] % len(cands)]
            inc = [l for l in m.links if l[0] == i or l[2] == i]
            if any(m.multi(*l) for l in inc):
                m.flags.add("delete-on-multi-port")
            if any(l[1] == -1 for l in inc):
                m.flags.add("delete-node-with-order-link")
            data = h.delete_node(handles[i])
            if data is None or op_key(data.op) != op_key(mk_pool_op(m.nodes[i]["op"])):
                fails.append(Fail("delete_node", "returned-data", f"{data!r}"))
            p = m.nodes[i]["parent"]
            m.nodes[p]["children"].remove(i)
            del m.nodes[i]
            del handles[i]
            m.links = [l for l in m.links if l[0] != i and l[2] != i]
            m.flags.add("delete-node")
    elif kind == "to_json":
        from hugr.ops import IncompleteOp

        try:
            h.to_json()  # serializing changes nothing
        except IncompleteOp:
            pass
    elif kind == "insert_hugr":
        _, sub, psel = step
        parent = pick(psel)
        b, bm, bh = build(sub)
        # parent-first order is a documented precondition of insert_hugr; every HUGR built through the
        # API satisfies it (a child never gets an index below its parent's), so the model expects success
        before_b = snapshot(b)
        try:
            if psel % 4 == 0:
                parent = m.root
                mapping = h.insert_hugr(b)  # the documented default: under the root
            else:
                mapping = h.insert_hugr(b, handles[parent])
        except ParentBeforeChild:
            return [Fail("insert_hugr", "ParentBeforeChild", "raised for a HUGR built through the API")]
        mp = {k.idx: v for k, v in mapping.items()}
        if sorted(mp) != bm.live():
            fails.append(Fail("insert_hugr", "mapping-domain", f"{sorted(mp)} vs {bm.live()}"))
            return fails
        new = [v.idx for v in mp.values()]
        if len(set(new)) != len(new) or any(i in m.nodes for i in new):
            fails.append(Fail("insert_hugr", "mapping-not-fresh-injective", f"{new}"))
            return fails
        for bi in bm.live():
            bn = bm.nodes[bi]
            par = parent if bn["parent"] is None else mp[bn["parent"]].idx
            m.add(mp[bi].idx, bn["op"], par, b.num_out_ports(bh[bi]), bn["meta"])
            m.nodes[mp[bi].idx]["min_in"] = 0
            handles[mp[bi].idx] = mp[bi]
        for bi in bm.live():
            m.nodes[mp[bi].idx]["children"] = [mp[c].idx for c in bm.nodes[bi]["children"]]
        for s, so, d, do in bm.links:
            m.link(mp[s].idx, so, mp[d].idx, do)
        if bm.flags & {"multi-link"}:
            m.flags.add("multi-link")
        m.flags.add("insert")
        if "delete-node" in bm.flags:
            m.flags.add("insert-with-holes")
        if snapshot(b) != before_b:
            fails.append(Fail("insert_hugr", "source-modified", "inserted HUGR changed"))
    else:
        raise InvalidCase(kind)
    return fails


def build(case):
    """Build a store from {'root': opname, 'steps': [...]} -> (hugr, model, handles)."""
    from hugr.hugr import Hugr

    h = Hugr(mk_pool_op(case["root"]))
    m = Model(case["root"])
    handles = {0: h.root}
    for s in case["steps"]:
        if s and s[0] == "insert_hugr":
            raise InvalidCase("nested insert")
        apply_step(h, m, s, handles)
    return h, m, handles


def snapshot(h):
    """Observation of a store through its public queries (used to detect
    unintended modification): node -> (op, parent, children, meta, port counts) and link multiset."""
    nodes = {}
    for n in h:
        d = h[n]
        nodes[n.idx] = (op_key(d.op), d.parent.idx if d.parent else None, [c.idx for c in h.children(n)], json.dumps(d.metadata, sort_keys=True, default=repr), h.num_in_ports(n), h.num_out_ports(n))
    links = Counter((s.node.idx, s.offset, d.node.idx, d.offset) for s, d in h.links())
    return nodes, links


def compare(h, m: Model, handles) -> list[Fail]:
    """Every query of the store vs. the model."""
    from hugr.hugr.node_port import InPort, Node, OutPort

    f: list[Fail] = []
    live = m.live()
    got = [n.idx for n in h]
    if got != live:
        return [Fail("query.iter", "nodes", f"got={got} model={live}")]
    if len(h) != len(live) or h.num_nodes() != len(live):
        f.append(Fail("query.len", "count", f"{len(h)} vs {len(live)}"))
    top = max(live) + 3
    for i in range(top):
        try:
            h[Node(i)]
            present = True
        except KeyError:
            present = False
        if present != (i in m.nodes):
            f.append(Fail("query.getitem", "live-vs-dead", f"index {i}: present={present}"))
    want_links = Counter(m.links)
    got_links = Counter((s.node.idx, s.offset, d.node.idx, d.offset) for s, d in h.links())
    if got_links != want_links:
        f.append(Fail("query.links", "multiset", f"got={sorted(got_links.elements())} model={sorted(want_links.elements())}"[:400]))
    for i in live:
        mn = m.nodes[i]
        d = h[handles[i]]
        if (d.parent.idx if d.parent else None) != mn["parent"]:
            f.append(Fail("query.parent", "parent", f"node {i}"))
        if [c.idx for c in h.children(handles[i])] != mn["children"]:
            f.append(Fail("query.children", "order", f"node {i}: got={[c.idx for c in h.children(handles[i])]} model={mn['children']}"))
        if d.metadata != mn["meta"]:
            f.append(Fail("query.metadata", "node", f"node {i}: {d.metadata!r} vs {mn['meta']!r}"))
        if op_key(d.op) != op_key(mk_pool_op(mn["op"])):
            f.append(Fail("query.op", "node", f"node {i}"))
        no, ni = h.num_out_ports(handles[i]), h.num_in_ports(handles[i])
        from hugr.hugr.node_port import Direction
        if h.num_ports(handles[i], Direction.OUTGOING) != no or h.num_ports(handles[i], Direction.INCOMING) != ni:
            f.append(Fail("query.num_ports", "direction", f"node {i}: num_ports out/in={h.num_ports(handles[i], Direction.OUTGOING)}/{h.num_ports(handles[i], Direction.INCOMING)} vs num_out_ports/num_in_ports={no}/{ni}"))
        if no < mn["min_out"] or ni < mn["min_in"]:
            f.append(Fail("query.port-count", "too-small", f"node {i}: out {no}<{mn['min_out']} or in {ni}<{mn['min_in']}"))
        outs = Counter()
        ins = Counter()
        for s, so, dd, do in m.links:
            if s == i:
                outs[(so, dd, do)] += 1
            if dd == i:
                ins[(do, s, so)] += 1
        offs_out = sorted({k[0] for k in outs} | {0, 1, -1})
        offs_in = sorted({k[0] for k in ins} | {0, 1, -1})
        for off in offs_out:
            got_p = Counter((p.node.idx, p.offset) for p in h.linked_ports(OutPort(handles[i], off)))
            want_p = Counter()
            for (so, dd, do), c in outs.items():
                if so == off:
                    want_p[(dd, do)] += c
            if got_p != want_p:
                f.append(Fail("query.linked_ports", "out", f"node {i} out {off}: got={sorted(got_p.elements())} model={sorted(want_p.elements())}"))
        for off in offs_in:
            got_p = Counter((p.node.idx, p.offset) for p in h.linked_ports(InPort(handles[i], off)))
            want_p = Counter()
            for (do, s, so), c in ins.items():
                if do == off:
                    want_p[(s, so)] += c
            if got_p != want_p:
                f.append(Fail("query.linked_ports", "in", f"node {i} in {off}: got={sorted(got_p.elements())} model={sorted(want_p.elements())}"))
        # outgoing_links / incoming_links listings (non-empty entries, non-negative offsets)
        got_o = {p.offset: Counter((q.node.idx, q.offset) for q in qs) for p, qs in h.outgoing_links(handles[i]) if qs}
        want_o: dict = {}
        for (so, dd, do), c in outs.items():
            if so >= 0:
                want_o.setdefault(so, Counter())[(dd, do)] += c
        if got_o != want_o:
            f.append(Fail("query.outgoing_links", "listing", f"node {i}: got={got_o} model={want_o}"[:300]))
        got_i = {p.offset: Counter((q.node.idx, q.offset) for q in qs) for p, qs in h.incoming_links(handles[i]) if qs}
        want_i: dict = {}
        for (do, s, so), c in ins.items():
            if do >= 0:
                want_i.setdefault(do, Counter())[(s, so)] += c
        if got_i != want_i:
            f.append(Fail("query.incoming_links", "listing", f"node {i}: got={got_i} model={want_i}"[:300]))
        goo = Counter(n.idx for n in h.outgoing_order_links(handles[i]))
        woo = Counter(dd for (so, dd, do), c in outs.items() for _ in range(c) if so == -1)
        if goo != woo:
            f.append(Fail("query.outgoing_order_links", "listing", f"node {i}: got={dict(goo)} model={dict(woo)}"))
        gio = Counter(n.idx for n in h.incoming_order_links(handles[i]))
        wio = Counter(s for (do, s, so), c in ins.items() for _ in range(c) if do == -1)
        if gio != wio:
            f.append(Fail("query.incoming_order_links", "listing", f"node {i}: got={dict(gio)} model={dict(wio)}"))
    for s, so, d, do in set(m.links):
        if not h.has_link(OutPort(handles[s], so), InPort(handles[d], do)):
            f.append(Fail("query.has_link", "missing", f"{(s, so, d, do)}"))
    # a few absent pairs
    for s in live[:3]:
        for d in live[:3]:
            for so, do in ((0, 0), (1, 0), (-1, -1)):
                if (s, so, d, do) not in want_links and h.has_link(OutPort(handles[s], so), InPort(handles[d], do)):
                    f.append(Fail("query.has_link", "phantom", f"{(s, so, d, do)}"))
    return f


# ------------------------------------------------------------------ strategies

FIELD_NAMES = ["runtime_reqs", "extension_reqs", "extension_delta", "input_extensions", "op", "parent", "signature", "t", "v", "typ", "input", "output", "version", "nodes", "edges", "metadata", "encoder"]
FIELD_DICTS = st.dictionaries(st.sampled_from(FIELD_NAMES), st.one_of(st.integers(0, 2), st.lists(st.sampled_from(["a", "b"]), max_size=2), st.none()), min_size=1, max_size=2)
META = st.one_of(st.none(), st.none(), st.dictionaries(st.sampled_from(["k", "name"] + FIELD_NAMES[:4]), FIELD_DICTS, min_size=1, max_size=1), st.dictionaries(st.sampled_from(["k", "name", "ü", " k", "k ", "name\n", ""]), st.one_of(st.integers(-3, 3), st.text(max_size=3), st.none(), st.lists(st.integers(0, 2), max_size=2), st.booleans(), st.sampled_from([0.0, 1.0, 2.5])), max_size=2))
SEL = st.integers(0, 30)
OFF = st.integers(0, 5)


def step_strategy(with_insert: bool, max_sub: int = 8):
    alts = [
        (4, st.tuples(st.just("add_node"), st.sampled_from(OP_POOL), SEL, st.one_of(st.none(), st.integers(0, 4)), META).map(list)),
        (1, st.tuples(st.just("add_const"), SEL, META).map(list)),
        (5, st.tuples(st.just("add_link"), SEL, st.integers(0, 2), SEL, st.integers(0, 2)).map(list)),
        (2, st.tuples(st.just("add_link"), SEL, OFF, SEL, OFF).map(list)),
        (2, st.tuples(st.just("add_order_link"), SEL, SEL).map(list)),
        (1, st.tuples(st.just("add_link"), st.integers(0, 4), st.just(-1), st.integers(0, 4), st.just(-1)).map(list)),  # an order link as a plain link: not de-duplicated
        (1, st.tuples(st.just("add_link"), st.integers(0, 4), st.sampled_from([-1, 0, 2, 3]), st.integers(0, 4), st.sampled_from([-1, 1, 2, 4])).map(list)),  # any mix of order and value ports
        (1, st.tuples(st.just("delete_link"), SEL, st.integers(0, 2), SEL, st.integers(0, 2)).map(list)),
        (3, st.tuples(st.just("delete_existing_link"), SEL).map(list)),
        (2, st.tuples(st.just("delete_node"), SEL).map(list)),
        (1, st.just(["to_json"])),
    ]
    from vlib.asts import weighted

    if with_insert:
        # inserted HUGRs: arbitrary short histories, or add/delete dominated ones in which freed
        # indices get reused (child order differs from index order, with or without free indices left)
        churn = weighted(
            (5, st.tuples(st.just("add_node"), st.sampled_from(OP_POOL), SEL, st.one_of(st.none(), st.integers(0, 3)), META).map(list)),
            (4, st.tuples(st.just("delete_node"), SEL).map(list)),
            (1, st.tuples(st.just("add_link"), SEL, st.integers(0, 2), SEL, st.integers(0, 2)).map(list)),
        )
        sub_steps = weighted((2, st.lists(step_strategy(False), max_size=max_sub)), (1, st.lists(churn, min_size=4, max_size=12)))
        sub = st.fixed_dictionaries({"root": st.sampled_from(["dfg", "module", "custom"]), "steps": sub_steps})
        alts.append((2, st.tuples(st.just("insert_hugr"), sub, SEL).map(list)))

    return weighted(*alts)


def dense_history_strategy(max_steps: int):
    """Few nodes, many links on few ports (parallel links between the same pair of ports, several
    links into one port, order links), then link and node deletions."""
    from vlib.asts import weighted

    o = st.integers(0, 1)
    s = st.integers(0, 3)
    step = weighted(
        (2, st.tuples(st.just("add_node"), st.sampled_from(["dfg", "custom", "noop", "not"]), s, st.one_of(st.none(), st.integers(0, 2)), st.none()).map(list)),
        (7, st.tuples(st.just("add_link"), s, o, s, o).map(list)),
        (2, st.tuples(st.just("add_order_link"), s, s).map(list)),
        (2, st.tuples(st.just("add_link"), s, st.just(-1), s, st.just(-1)).map(list)),
        (3, st.tuples(st.just("add_link"), s, st.just(-1), s, o).map(list)),  # from an order port to a value port
        (1, st.tuples(st.just("add_link"), s, o, s, st.just(-1)).map(list)),  # from a value port to an order port
        (2, st.tuples(st.just("add_order_link"), s, s).map(list)),
        (2, st.tuples(st.just("delete_existing_link"), SEL).map(list)),
        (1, st.tuples(st.just("delete_link"), s, o, s, o).map(list)),
        (3, st.tuples(st.just("delete_node"), SEL).map(list)),
    )
    return st.fixed_dictionaries({"root": st.sampled_from(["dfg", "module"]), "steps": st.lists(step, min_size=4, max_size=max_steps)})


def churn_strategy(max_steps: int):
    """Deep hierarchies under add/delete churn: several indices free at once, below and above the parents
    that get new children."""
    from vlib.asts import weighted

    step = weighted(
        (4, st.tuples(st.just("add_node"), st.sampled_from(["dfg", "dfg", "dfg", "custom", "noop", "tag"]), SEL, st.one_of(st.none(), st.integers(0, 2)), st.none()).map(list)),
        (4, st.tuples(st.just("delete_node"), SEL).map(list)),
        (1, st.tuples(st.just("add_link"), SEL, st.integers(0, 1), SEL, st.integers(0, 1)).map(list)),
    )
    return st.fixed_dictionaries({"root": st.sampled_from(["module", "dfg"]), "steps": st.lists(step, min_size=8, max_size=max_steps)})


def insert_churn_strategy(max_steps: int):
    """Hosts and inserted HUGRs that both went through add/delete churn with index reuse."""
    from vlib.asts import weighted

    churn = weighted(
        (5, st.tuples(st.just("add_node"), st.sampled_from(["dfg", "dfg", "dfg", *OP_POOL]), SEL, st.one_of(st.none(), st.integers(0, 3)), META).map(list)),
        (4, st.tuples(st.just("delete_node"), SEL).map(list)),
        (1, st.tuples(st.just("add_link"), SEL, st.integers(0, 2), SEL, st.integers(0, 2)).map(list)),
        (1, st.tuples(st.just("add_order_link"), SEL, SEL).map(list)),
    )
    # nested containers, leaves deleted from the highest index downwards, then new children anywhere: the
    # free indices lie on both sides of the parents that get children
    add_c = st.tuples(st.just("add_node"), st.sampled_from(["dfg", "dfg", "custom", "noop"]), SEL, st.none(), st.none()).map(list)
    desc = st.tuples(st.lists(add_c, min_size=4, max_size=9), st.lists(st.tuples(st.just("delete_node"), st.sampled_from([-1, -1, -2, 0, 1])).map(list), min_size=2, max_size=4), st.lists(add_c, min_size=1, max_size=4)).map(lambda t: t[0] + t[1] + t[2])
    sub = st.fixed_dictionaries({"root": st.sampled_from(["dfg", "module", "custom"]), "steps": st.one_of(st.lists(churn, min_size=3, max_size=12), desc)})
    step = weighted((3, churn), (2, st.tuples(st.just("insert_hugr"), sub, SEL).map(list)))
    return st.fixed_dictionaries({"root": st.sampled_from(["module", "dfg"]), "steps": st.lists(step, min_size=2, max_size=max_steps)})


def history_strategy(max_steps: int, with_insert: bool = True):
    return st.fixed_dictionaries({"root": st.sampled_from(["module", "dfg", "custom"]), "steps": st.lists(step_strategy(with_insert), min_size=1, max_size=max_steps)})


# ------------------------------------------------------------------ observation for round trips (C02 / C03)


def enc_op_of(h, n):
    """Encoded op of node n with the parent field blanked."""
    from hugr.hugr.node_port import Node

    d = json.loads(h[n].op._to_serial(Node(0)).model_dump_json())
    d["parent"] = 0
    return d


def obs(h):
    """Observable structure: {idx: (op, parent, children, metadata)}, link multiset
    (order links at offset -1), root index."""
    nodes = {}
    for n in h:
        d = h[n]
        nodes[n.idx] = (json.dumps(enc_op_of(h, n), sort_keys=True), d.parent.idx if d.parent else None, [c.idx for c in h.children(n)], json.dumps(d.metadata, sort_keys=True, default=repr))
    links = Counter((s.node.idx, s.offset, d.node.idx, d.offset) for s, d in h.links())
    return nodes, links, h.root.idx


def port_links(h):
    """The links as the per-port queries report them (linked_ports of every out port incl. the order port)."""
    from hugr.hugr.node_port import OutPort

    c = Counter()
    for n in h:
        for off in range(-1, h.num_out_ports(n)):
            for p in h.linked_ports(OutPort(n, off)):
                c[(n.idx, off, p.node.idx, p.offset)] += 1
    return c


def rename_links(links, nodes):
    mp = {old: new for new, old in enumerate(sorted(nodes))}
    l2 = Counter()
    for (s, so, d, do), c in links.items():
        l2[(mp[s], so, mp[d], do)] += c
    return l2


def rename_obs(o):
    """Order-preserving compaction of live indices (the only licence of C02)."""
    nodes, links, root = o
    mp = {old: new for new, old in enumerate(sorted(nodes))}
    n2 = {mp[i]: (op, None if p is None else mp[p], [mp[c] for c in ch], meta) for i, (op, p, ch, meta) in nodes.items()}
    l2 = Counter()
    for (s, so, d, do), c in links.items():
        l2[(mp[s], so, mp[d], do)] += c
    return n2, l2, mp[root]


def value_ports(h, n):
    """(#in, #out) ports that the operation of node n has, excluding order ports
    (value + static), computed from the encoded op by the reference signature."""
    from vlib import refval

    s = refval.jsig(enc_op_of(h, n))
    if s["other_out"] == "cf":
        return 1, s["n_cf_out"]
    nin = len(s["ins"]) + (1 if s["static_in"] else 0) + (1 if s["other_in"] == "cf" else 0)
    nout = len(s["outs"]) + (1 if s["static_out"] else 0)
    return nin, nout


def has_order_port(h, n, direction):
    from vlib import refval

    s = refval.jsig(enc_op_of(h, n))
    return s["other_in" if direction == "in" else "other_out"] == "order"


def apply_valid_mutation(h, step, flags: set):
    """Raw-API mutation on an arbitrary HUGR whose links stay on ports the ops have."""
    from hugr.hugr.node_port import InPort, OutPort

    live = [n for n in h]
    kind = step[0]

    def pick(sel):
        return live[sel % len(live)]

    if kind == "add_node":
        _, opn, psel, req, meta = step
        h.add_node(mk_pool_op(opn), pick(psel), num_outs=req, metadata=meta)
        flags.add("add-node")
    elif kind == "add_const":
        import hugr.val as val

        h.add_const(val.TRUE, pick(step[1]), metadata=step[2])
    elif kind == "add_link":
        _, ssel, so, dsel, do = step
        srcs = [n for n in live if value_ports(h, n)[1] > 0]
        dsts = [n for n in live if value_ports(h, n)[0] > 0]
        if not srcs or not dsts:
            return
        s, d = srcs[ssel % len(srcs)], dsts[dsel % len(dsts)]
        so, do = so % value_ports(h, s)[1], do % value_ports(h, d)[0]
        multi = any(True for _ in h.linked_ports(OutPort(s, so))) or any(True for _ in h.linked_ports(InPort(d, do)))
        h.add_link(OutPort(s, so), InPort(d, do))
        if multi:
            flags.add("multi-link")
    elif kind == "add_order_link":
        _, ssel, dsel = step
        srcs = [n for n in live if has_order_port(h, n, "out")]
        dsts = [n for n in live if has_order_port(h, n, "in")]
        if not srcs or not dsts:
            return
        h.add_order_link(srcs[ssel % len(srcs)], dsts[dsel % len(dsts)])
        flags.add("order-link")
    elif kind == "add_raw_order_link":
        # an order link added as a plain link between the two order ports: not de-duplicated
        _, ssel, dsel = step
        srcs = [n for n in live if has_order_port(h, n, "out")]
        dsts = [n for n in live if has_order_port(h, n, "in")]
        if not srcs or not dsts:
            return
        s, d = srcs[ssel % len(srcs)], dsts[dsel % len(dsts)]
        if any(True for _ in h.linked_ports(OutPort(s, -1))):
            flags.add("multi-link")
        h.add_link(OutPort(s, -1), InPort(d, -1))
        flags.add("order-link")
    elif kind == "to_json":
        # serialize in the middle of the history (the result is discarded): later documents must not depend on it
        from hugr.ops import IncompleteOp

        try:
            h.to_json()
        except IncompleteOp:
            pass
        flags.add("serialized-mid-history")
    elif kind == "insert_default":
        # a small HUGR inserted with insert_hugr's default parent (the root)
        from hugr.hugr import Hugr

        b = Hugr(mk_pool_op("dfg"))
        x = b.add_node(mk_pool_op(step[1]), b.root)
        b.add_node(mk_pool_op("noop"), b.root)
        if step[2]:
            b.add_order_link(x, x) if has_order_port(b, x, "out") and has_order_port(b, x, "in") else None
        h.insert_hugr(b)
        flags.add("insert")
    elif kind in ("delete_existing_link", "delete_link"):
        ls = list(h.links())
        if ls:
            s, d = ls[step[1] % len(ls)]
            h.delete_link(s, d)
            flags.add("delete-link")
    elif kind == "delete_node":
        cands = [n for n in live if n.idx != h.root.idx and not h.children(n)]
        if cands:
            n = cands[step[1] % len(cands)]
            h.delete_node(n)
            flags.add("delete-node")
            if step[1] % 2:
                # a caller holding a stale handle deletes the node again: refused (KeyError), nothing changes
                try:
                    h.delete_node(n)
                except KeyError:
                    pass
                flags.add("deleted-twice")
    else:
        raise InvalidCase(kind)


def valid_mutations(max_steps=8):
    from vlib.asts import weighted

    alts = [
        (3, st.tuples(st.just("add_node"), st.sampled_from(OP_POOL), SEL, st.one_of(st.none(), st.integers(0, 3)), META).map(list)),
        (1, st.tuples(st.just("add_const"), SEL, META).map(list)),
        (4, st.tuples(st.just("add_link"), SEL, OFF, SEL, OFF).map(list)),
        (2, st.tuples(st.just("add_order_link"), SEL, SEL).map(list)),
        (2, st.tuples(st.just("add_raw_order_link"), st.integers(0, 2), st.integers(0, 2)).map(list)),
        (2, st.tuples(st.just("delete_existing_link"), SEL).map(list)),
        (3, st.tuples(st.just("delete_node"), SEL).map(list)),
        (1, st.tuples(st.just("insert_default"), st.sampled_from(["custom", "noop", "dfg", "not"]), st.booleans()).map(list)),
        (1, st.just(["to_json"])),
    ]
    return st.lists(weighted(*alts), max_size=max_steps)


def order_port_mutations(max_steps=14):
    """Order links on nodes at the boundary of the port-offset rules: ops without value inputs / outputs,
    more ports requested at creation than the signature has, ports left unconnected."""
    from vlib.asts import weighted

    alts = [
        (4, st.tuples(st.just("add_node"), st.sampled_from(["sink0", "src0", "sink0", "src0", "custom", "noop", "dfg", "not"]), SEL, st.one_of(st.none(), st.integers(0, 3)), st.none()).map(list)),
        (4, st.tuples(st.just("add_order_link"), SEL, SEL).map(list)),
        (1, st.tuples(st.just("add_raw_order_link"), st.integers(0, 3), st.integers(0, 3)).map(list)),
        (1, st.tuples(st.just("add_link"), SEL, OFF, SEL, OFF).map(list)),
        (2, st.tuples(st.just("delete_node"), SEL).map(list)),
        (1, st.just(["to_json"])),
    ]
    return st.lists(weighted(*alts), min_size=4, max_size=max_steps)


def burst_mutations():
    """Siblings added under the root, several of them deleted, as many added again (freed indices are reused
    most recent first, so the child order ends far from index order), then a few links."""
    add0 = st.tuples(st.just("add_node"), st.sampled_from(OP_POOL), st.just(0), st.one_of(st.none(), st.integers(0, 3)), META).map(list)
    dele = st.tuples(st.just("delete_node"), SEL).map(list)
    link = st.one_of(st.tuples(st.just("add_link"), SEL, OFF, SEL, OFF).map(list), st.tuples(st.just("add_order_link"), SEL, SEL).map(list))
    return st.tuples(st.lists(add0, min_size=4, max_size=8), st.lists(dele, min_size=2, max_size=5), st.lists(add0, min_size=2, max_size=5), st.lists(link, max_size=4)).map(lambda t: t[0] + t[1] + t[2] + t[3])


def desc_mutations():
    """Nested containers, leaves deleted from the highest index downwards, then new children anywhere: the
    free indices lie on both sides of the parents that get children."""
    add_c = st.tuples(st.just("add_node"), st.sampled_from(["dfg", "dfg", "custom", "noop"]), SEL, st.none(), st.none()).map(list)
    dele = st.tuples(st.just("delete_node"), st.sampled_from([-1, -1, -2, 0, 1])).map(list)
    return st.tuples(st.lists(add_c, min_size=4, max_size=9), st.lists(dele, min_size=2, max_size=4), st.lists(add_c, min_size=1, max_size=4)).map(lambda t: t[0] + t[1] + t[2])


def stale_order_mutations():
    """Order links on some nodes, a serialization, the nodes replaced by nodes of other arities on the same
    indices, order links again: what the first serialization computed per node index is out of date."""
    ops_ = ["sink0", "src0", "custom", "noop", "not", "mktuple", "divmod", "directext"]
    add0 = st.tuples(st.just("add_node"), st.sampled_from(ops_), st.just(0), st.none(), st.none()).map(list)
    order = st.tuples(st.just("add_order_link"), SEL, SEL).map(list)
    dele = st.tuples(st.just("delete_node"), st.sampled_from([-1, -1, -2, 0, 1, 2])).map(list)
    return st.tuples(st.lists(add0, min_size=3, max_size=5), st.lists(order, min_size=2, max_size=5), st.just([["to_json"]]), st.lists(dele, min_size=1, max_size=3), st.lists(add0, min_size=1, max_size=3), st.lists(order, min_size=2, max_size=5)).map(
        lambda t: t[0] + t[1] + t[2] + t[3] + t[4] + t[5]
    )


def holes_mutations():
    """Additions and links, then deletions only (several indices free at once, freed in any order, live
    nodes and link ends above and between them), then at most two additions."""
    add = st.tuples(st.just("add_node"), st.sampled_from(OP_POOL), SEL, st.one_of(st.none(), st.integers(0, 3)), META).map(list)
    link = st.one_of(st.tuples(st.just("add_link"), SEL, OFF, SEL, OFF).map(list), st.tuples(st.just("add_order_link"), SEL, SEL).map(list))
    dele = st.tuples(st.just("delete_node"), SEL).map(list)
    return st.tuples(st.lists(add, min_size=5, max_size=12), st.lists(link, max_size=5), st.lists(dele, min_size=2, max_size=6), st.lists(add, max_size=2)).map(lambda t: t[0] + t[1] + t[2] + t[3])


def reuse_mutations(max_steps=30):
    """Histories dominated by node additions (under any live node) and leaf deletions, so that
    several indices are free at once and get reused under parents of various indices."""
    from vlib.asts import weighted

    alts = [
        (5, st.tuples(st.just("add_node"), st.sampled_from(OP_POOL), SEL, st.one_of(st.none(), st.integers(0, 3)), META).map(list)),
        (4, st.tuples(st.just("delete_node"), SEL).map(list)),
        (1, st.tuples(st.just("add_link"), SEL, OFF, SEL, OFF).map(list)),
        (2, st.tuples(st.just("add_order_link"), SEL, SEL).map(list)),
        (1, st.just(["to_json"])),
    ]
    return st.lists(weighted(*alts), min_size=6, max_size=max_steps)
