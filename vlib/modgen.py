"""Simple generated module-rooted HUGRs (used by C09/C11 until/alongside the
full builder-program generator): functions that permute / forward their inputs,
declarations, constants, aliases, metadata incl. non-ASCII."""

from __future__ import annotations

from hypothesis import strategies as st

from vlib import asts
from vlib.interp import mk_op, mk_row, mk_type, mk_value

META = st.one_of(
    st.none(),
    st.dictionaries(st.sampled_from(["name", "ü", "k.v"]), st.one_of(st.integers(-3, 3), st.text(max_size=4), st.none(), st.lists(st.integers(0, 3), max_size=2), st.just({"a": [1, {"b": None}]})), min_size=1, max_size=2),
)


@st.composite
def modules(draw, depth=1, max_funcs=3):
    funcs = []
    for _ in range(draw(st.integers(0, max_funcs))):
        ts = draw(st.lists(asts.types(depth), max_size=3))
        funcs.append({"name": draw(asts.NAMES), "ts": ts, "perm": draw(st.permutations(list(range(len(ts))))), "meta": draw(META), "noop": draw(st.booleans())})
    decls = [draw(asts.op_asts(depth, kinds=["FuncDecl"])) for _ in range(draw(st.integers(0, 2)))]
    consts = [draw(asts.values(depth)) for _ in range(draw(st.integers(0, 2)))]
    aliases = [draw(asts.op_asts(depth, kinds=["AliasDecl", "AliasDefn"])) for _ in range(draw(st.integers(0, 1)))]
    return {"funcs": funcs, "decls": decls, "consts": consts, "aliases": aliases, "meta": draw(META)}


def mk_module(a):
    import hugr.ops as ops
    from hugr.build.function import Module

    m = Module()
    if a.get("meta"):
        m.hugr[m.hugr.root].metadata.update(a["meta"])
    for f in a["funcs"]:
        fn = m.define_function(f["name"], mk_row(f["ts"]))
        ws = list(fn.inputs())
        if f.get("noop") and ws:
            ws[0] = fn.add_op(ops.Noop(), ws[0], metadata=f.get("meta"))[0]
        fn.set_outputs(*[ws[i] for i in f["perm"]])
    for d in a["decls"]:
        m.hugr.add_node(mk_op(d), m.hugr.root)
    for v in a["consts"]:
        m.add_const(mk_value(v))
    for al in a["aliases"]:
        m.hugr.add_node(mk_op(al), m.hugr.root)
    return m.hugr


def n_nodes(a) -> int:
    return 1 + sum(3 + (1 if f.get("noop") and f["ts"] else 0) for f in a["funcs"]) + len(a["decls"]) + len(a["consts"]) + len(a["aliases"])
