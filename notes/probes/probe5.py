import json
from hugr import Hugr, tys, ops, val
from hugr.build.dfg import Dfg
from hugr.build.cfg import Cfg
from hugr.build.cond_loop import Conditional, TailLoop
from hugr.build.function import Module
from hugr.hugr.node_port import Node, OutPort, InPort
from hugr.tys import TypeBound as TB

# C07
print("join()", TB.join(), TB.join(TB.Copyable, TB.Any), TB.join(TB.Any, TB.Copyable))
print("Sum([]) bound", tys.Sum([]).type_bound(), "Tuple(Qubit)", tys.Tuple(tys.Qubit).type_bound())
from hugr.ext import Extension, TypeDef, FromParamsBound, ExplicitBound, Version
e = Extension("e", Version(0,1,0))
td = e.add_type_def(TypeDef("T", "d", [tys.TypeTypeParam(TB.Any), tys.ListParam(tys.TypeTypeParam(TB.Any))], FromParamsBound([0,1])))
t = td.instantiate([tys.TypeTypeArg(tys.Bool), tys.SequenceArg([tys.TypeTypeArg(tys.Qubit)])])
print("FromParams with sequence arg containing Qubit:", t.type_bound())
from hugr.std.collections.array import Array
from hugr.std.collections.list import List
from hugr.std.collections.static_array import StaticArray
print("Array(Qubit) bound", Array(tys.Qubit, 2).type_bound(), "opaque bound", Array(tys.Qubit,2)._to_opaque().bound)
print("List(Qubit) bound", List(tys.Qubit).type_bound())
try: StaticArray(tys.Qubit); print("StaticArray(Qubit) accepted")
except ValueError as e_: print("StaticArray(Qubit) rejected")

# C16 handles
d = Dfg(tys.Bool, tys.Bool)
from hugr.std.int import DivMod, INT_T, IntVal
n = d.add_op(ops.MakeTuple(), *d.inputs())
print("MakeTuple handle outs", n._num_out_ports)
u = d.add_op(ops.UnpackTuple(), n)
print("Unpack handle outs", u._num_out_ports, list(u))
ld = d.load(val.TRUE); print("load handle", ld._num_out_ports)
nd = Dfg(tys.Bool); nd.set_outputs(nd.inputs()[0], nd.inputs()[0])
ins = d.insert_nested(nd, u[0]); print("insert_nested handle", ins._num_out_ports)
print("nested builder as ToNode", len(list(nd)), nd.parent_node._num_out_ports)
c = Cfg(tys.Bool)
with c.add_entry() as en: en.set_single_succ_outputs(*en.inputs())
c.branch_exit(en[0])
print("cfg handle", c.parent_node._num_out_ports, list(c))
ic = d.insert_cfg(c, u[1]); print("insert_cfg handle", ic._num_out_ports)
cond = Conditional(tys.Bool, [tys.Bool])
for i in range(2):
    with cond.add_case(i) as cs: cs.set_outputs(*cs.inputs())
print("cond handle", cond.parent_node._num_out_ports)
tl = TailLoop([tys.Bool], [tys.Bool])
# slicing semantic
nn = Node(0, _num_out_ports=3)
print([p.offset for p in nn[5:]], [p.offset for p in nn[-2:]], [p.offset for p in nn[::2]])
try: print([p.offset for p in nn[-4:]])
except IndexError as e_: print("IndexError", e_)
print("step 0:", [p.offset for p in nn[::0]] if True else None)
