from hugr import tys, ops, val
from hugr.build.function import Module
from hugr.hugr.node_port import Node, OutPort, InPort
m = Module()
f = m.define_function("f", [tys.Bool], [tys.Bool]); f.set_outputs(f.inputs()[0])
mn = m.define_main([tys.Bool])
c1 = mn.call(f.parent_node, mn.inputs()[0])
k = mn.load(val.TRUE)
lf = mn.load_function(f.parent_node)
n = mn.add_op(ops.Noop(), c1)
for src in (c1, k, lf):
    mn.add_state_order(src, n)
mn.set_outputs(n)
for name, node in [("call", c1), ("loadconst", k), ("loadfunc", lf), ("noop", n)]:
    for p in (node.out(-1), node.inp(-1)):
        try: print(name, p, m.hugr.port_kind(p))
        except Exception as e: print(name, p, "EXC", type(e).__name__, e)
try:
    m.hugr.render_dot(); print("render ok")
except Exception as e: print("render EXC", type(e).__name__, e)
try:
    m.hugr.to_model(); print("export ok")
except Exception as e: print("export EXC", type(e).__name__, e)
