import json
from hugr import Hugr, tys, ops, val
from hugr.build.dfg import Dfg
from hugr.build.function import Module
from hugr.hugr.node_port import Node, OutPort, InPort

# 1. metadata lost on serialization?
d = Dfg(tys.Bool)
n = d.add_op(ops.Noop(), d.inputs()[0], metadata={"k": 1})
d.set_outputs(n)
j = json.loads(d.hugr.to_json())
print("1 metadata in json:", j.get("metadata"))
h2 = Hugr.load_json(d.hugr.to_json())
print("1 metadata after load:", [dict(h2[x].metadata) for x in h2])

# 2. deletion then serialization
h = Hugr()
a = h.add_const(val.TRUE)
b = h.add_const(val.FALSE)
c = h.add_node(ops.DFG([]) , h.root)
h.delete_node(a)
i = h.add_node(ops.Input([]), c, 0)
print("2 nodes:", list(h), "children root", h.children(h.root), "children c", h.children(c))
try:
    j = json.loads(h.to_json())
    print("2 json parents:", [n["parent"] for n in j["nodes"]], [n["op"] for n in j["nodes"]])
    h3 = Hugr.load_json(h.to_json())
    print("2 reload ok; parents", [(x.idx, h3[x].parent) for x in h3])
except Exception as e:
    print("2 EXC", type(e), e)

# 3. delete_link in fan-out
d = Dfg(tys.Bool)
i0 = d.input_node.out(0)
o = d.output_node
d.hugr.add_link(i0, o.inp(0)); d.hugr.add_link(i0, o.inp(1)); d.hugr.add_link(i0, o.inp(2))
d.hugr.delete_link(i0, o.inp(0))
print("3 linked_ports after deleting first of 3:", list(d.hugr.linked_ports(i0)), "links()", list(d.hugr.links()))
print("3 from the other end:", list(d.hugr.linked_ports(o.inp(1))), list(d.hugr.linked_ports(o.inp(2))))

# 4. delete_node with multi-links & order links
d = Dfg(tys.Bool)
n1 = d.add_op(ops.Noop(), d.inputs()[0])
n2 = d.add_op(ops.Noop(), n1)
n3 = d.add_op(ops.Noop(), n1)
d.add_state_order(n1, n2)
d.hugr.delete_node(n1)
print("4 links after deleting n1:", list(d.hugr.links()))
