import json, time
from hugr import Hugr, tys, ops, val
from hugr.build.dfg import Dfg
from hugr.build.cfg import Cfg
from hugr.build.cond_loop import Conditional, TailLoop
from hugr.build.function import Module
from hugr.std.int import IntVal, INT_T, DivMod
from hugr.std.logic import Not

t0=time.time()
m = Module()
f = m.define_function("f", [tys.Bool, tys.Qubit], None)
b, q = f.inputs()
with f.add_conditional(b, q) as cond:
    with cond.add_case(0) as c0:
        c0.set_outputs(*c0.inputs())
    with cond.add_case(1) as c1:
        n = c1.add_op(Not, c1.load(val.TRUE))
        c1.set_outputs(*c1.inputs())
with f.add_tail_loop([b], [cond[0]]) as tl:
    bb, qq = tl.inputs()
    tag = tl.add_op(ops.Tag(1, tys.Sum([[tys.Bool],[tys.Bool]])), bb)
    tl.set_loop_outputs(tag, qq)
with f.add_cfg(tl[0]) as cfg:
    with cfg.add_entry() as e:
        (x,) = e.inputs()
        e.set_block_outputs(x)
    with cfg.add_successor(e[0]) as s1:
        k = s1.load(IntVal(3, 5))
        s1.set_single_succ_outputs(k)
    with cfg.add_successor(e[1]) as s2:
        k2 = s2.load(IntVal(4, 5))
        s2.set_single_succ_outputs(k2)
    cfg.branch_exit(s1[0]); cfg.branch_exit(s2[0])
f.set_outputs(tl[1], cfg[0])
j1 = m.hugr.to_json()
t1=time.time()
h2 = Hugr.load_json(j1)
j2 = h2.to_json()
print("fixed point:", json.loads(j1)==json.loads(j2), "nodes", len(m.hugr), "build+ser ms", (t1-t0)*1000, "load+ser ms", (time.time()-t1)*1000)
d=json.loads(j1)
print(d["edges"])
for i,n in enumerate(d["nodes"]): print(i, n["parent"], n["op"])
# render
dot = m.hugr.render_dot()
print(len(dot.source))
mod = m.hugr.to_model()
