import json
from hugr import Hugr, tys, ops, val
from hugr.build.dfg import Dfg
from hugr.build.cfg import Cfg
from hugr.build.cond_loop import Conditional, TailLoop
from hugr.build.function import Module
from hugr.build.tracked_dfg import TrackedDfg
from hugr.hugr.node_port import Node, OutPort, InPort
from hugr.package import Package
from hugr.envelope import EnvelopeConfig, EnvelopeFormat, EnvelopeHeader
from hugr.exceptions import *

# C09
m = Module(); f = m.define_main([tys.Bool]); f.set_outputs(*f.inputs())
m.hugr[f.parent_node].metadata["name"] = "λ→✓"
p = Package([m.hugr])
for z in [None, 0, 1, 22, -5]:
    b = p.to_bytes(EnvelopeConfig(zstd=z))
    p2 = Package.from_bytes(b)
    print("zstd", z, b[:10], len(b), p2.modules[0].to_json() == m.hugr.to_json())
s = p.to_str(); print("to_str ok", s[:12])
try: p.to_str(EnvelopeConfig(zstd=0)); print("to_str zstd ok?!")
except Exception as e: print("to_str zstd:", type(e).__name__)
for fmt in [EnvelopeFormat.MODULE, EnvelopeFormat.MODULE_WITH_EXTS]:
    try: p.to_bytes(EnvelopeConfig(format=fmt)); print(fmt, "ok")
    except Exception as e: print(fmt, type(e).__name__, str(e)[:80])
try: p.to_str(EnvelopeConfig(format=EnvelopeFormat.MODULE))
except Exception as e: print("to_str MODULE:", type(e).__name__, e)
for bad in [b"", b"HUGRiHJv", b"HUGRiHJv?", b"XUGRiHJv?@", b"HUGRiHJv\x00@", b"HUGRiHJv\x01@{}"]:
    try: Package.from_bytes(bad); print(bad, "decoded")
    except Exception as e: print(bad, type(e).__name__)

# C13 error classes
d = Dfg(tys.Bool); d2 = Dfg(tys.Bool)
inner = d.add_nested(); 
with inner:
    n = inner.add_op(ops.Noop(), d.inputs()[0]); inner.set_outputs(n)
try: d.add_op(ops.Noop(), n); print("no error for inner->outer wire")
except NoSiblingAncestor as e: print("NoSiblingAncestor ok")
try: print(json.loads(Dfg(tys.Bool).hugr.to_json())["nodes"][0])
except Exception as e: print("Incomplete:", type(e).__name__)
try: d.add(ops.Noop()(0))
except ValueError as e: print("int in Dfg.add: ValueError ok")
t = TrackedDfg(tys.Bool)
try: t.add(ops.Noop()(0))
except IndexError as e: print("untracked: IndexError ok")
m = Module()
try: f = m.define_function("f", [tys.Bool], [tys.Qubit]); f.set_outputs(f.inputs()[0])
except ValueError as e: print("declared outputs mismatch ValueError ok")
pf = tys.PolyFuncType([tys.TypeTypeParam(tys.TypeBound.Any)], tys.FunctionType.endo([tys.Variable(0, tys.TypeBound.Any)]))
fd = m.declare_function("g", pf)
mn = m.define_main([tys.Bool])
for kw in [dict(), dict(instantiation=tys.FunctionType.endo([tys.Bool])), dict(instantiation=tys.FunctionType.endo([tys.Bool]), type_args=[tys.Bool.type_arg(), tys.Bool.type_arg()])]:
    try: mn.call(fd, mn.inputs()[0], **kw); print("call accepted", kw.keys())
    except ops.NoConcreteFunc as e: print("NoConcreteFunc ok", list(kw))
try: mn.call(mn.input_node, mn.inputs()[0])
except ValueError as e: print("call non-function ValueError:", e)
except Exception as e: print("call non-function other:", type(e).__name__, e)
try: mn.add_op(ops.Noop(), fd.out(0))
except ValueError as e: print("non-dataflow port ValueError:", e)
except Exception as e: print("non-dataflow other:", type(e).__name__, e)
