import json
from hugr import Hugr, tys, ops, val
from hugr.build.dfg import Dfg
from hugr.build.function import Module
from hugr.build.tracked_dfg import TrackedDfg
from hugr.hugr.node_port import Node, OutPort, InPort

# 2. deletion then serialization (holes) and index reuse
h = Hugr()
a = h.add_const(val.TRUE)
b = h.add_const(val.FALSE)
c = h.add_node(ops.DFG([], []) , h.root)
h.delete_node(a)
j = json.loads(h.to_json())
print("2a json parents with hole:", [n["parent"] for n in j["nodes"]], [n["op"] for n in j["nodes"]])
i = h.add_node(ops.Input([]), c, 0)
o = h.add_node(ops.Output([]), c, 0)
print("2b nodes:", list(h), "children c", h.children(c))
try:
    j = json.loads(h.to_json())
    print("2b json parents:", [n["parent"] for n in j["nodes"]], [n["op"] for n in j["nodes"]])
    h3 = Hugr.load_json(h.to_json())
    print("2b reload ok; parents", [(x.idx, h3[x].parent, h3[x].op) for x in h3])
except Exception as e:
    print("2b EXC", type(e), e)

# 5. order edge offset when last output unused
from hugr.std.int import DivMod, IntVal, INT_T
d = Dfg(INT_T, INT_T)
x, y = d.inputs()
dm = d.add_op(DivMod, x, y)
nested = d.add_nested()
with nested:
    nn = nested.add_op(ops.Noop(), dm[0])   # non-local edge from dm out 0
    nested.set_outputs(nn)
d.set_outputs(nested)
j = json.loads(d.hugr.to_json())
print("5 edges:", j["edges"])
print("5 num_out_ports(dm) =", d.hugr.num_out_ports(dm), "op.num_out", d.hugr[dm].op.num_out)

# 6. polymorphic FuncDefn roundtrip
m = Module()
f = m.define_function("f", [tys.Variable(0, tys.TypeBound.Copyable)], type_params=[tys.TypeTypeParam(tys.TypeBound.Copyable)])
f.set_outputs(f.inputs()[0])
j1 = json.loads(m.hugr.to_json())
h2 = Hugr.load_json(m.hugr.to_json())
j2 = json.loads(h2.to_json())
print("6 poly FuncDefn fixed point:", j1 == j2, j1["nodes"][1]["signature"]["params"], j2["nodes"][1]["signature"]["params"])

# 7. Call function port offset with row var instantiation
rv = tys.RowVariable(0, tys.TypeBound.Copyable)
pf = tys.PolyFuncType([tys.ListParam(tys.TypeTypeParam(tys.TypeBound.Copyable))], tys.FunctionType([rv], [rv]))
inst = tys.FunctionType([tys.Bool, tys.Bool], [tys.Bool, tys.Bool])
call = ops.Call(pf, inst, [tys.SequenceArg([tys.TypeTypeArg(tys.Bool), tys.TypeTypeArg(tys.Bool)])])
print("7 call fn port offset", call._function_port_offset(), "num_out", call.num_out, "expected 2,2")
try:
    print("7 kind at inp(2)", call.port_kind(InPort(Node(0), 2)), "kind at inp(1)", call.port_kind(InPort(Node(0), 1)))
except Exception as e: print("7 EXC", type(e), e)

# 8. null-offset edges
d = Dfg(tys.Bool)
n = d.add_op(ops.Noop(), d.inputs()[0])
d.add_state_order(d.input_node, n)
d.set_outputs(n)
j = json.loads(d.hugr.to_json())
print("8 edges", j["edges"])
j["edges"] = [[[s, (so if so < 1 or (s,d_)!=(1,3) or True else so)], [d_, do]] for (s, so), (d_, do) in j["edges"]]
# emulate Rust: order edge written with null offsets
j["edges"] = [[[s, None if (s == 1 and so == 1) else so], [d_, None if (d_ == 3 and do == 1) else do]] for (s, so), (d_, do) in j["edges"]]
print("8 rust-like edges", j["edges"])
h2 = Hugr.load_json(json.dumps(j))
print("8 after load links:", list(h2.links()))
print("8 resave edges", json.loads(h2.to_json())["edges"])
# and python own roundtrip: is the order link still an order link?
h3 = Hugr.load_json(d.hugr.to_json())
print("8 py roundtrip outgoing_order_links(input):", list(h3.outgoing_order_links(Node(1))), "orig:", list(d.hugr.outgoing_order_links(d.input_node)))

# 9. Opaque.to_model naming
from hugr.std.int import int_t, INT_TYPES_EXTENSION
from hugr.ext import ExtensionRegistry
reg = ExtensionRegistry(); reg.add_extension(INT_TYPES_EXTENSION)
op_ = int_t(5)._to_opaque()
print("9", op_.to_model(), "vs", op_.resolve(reg).to_model())
# 10. resolve depth: args of opaque
from hugr.std.collections.array import Array, EXTENSION as ARR
reg.add_extension(ARR)
arr = Array(int_t(5), 3)
ser = arr._to_serial_root()
back = ser.deserialize()
res = back.resolve(reg)
print("10", type(res).__name__, [type(a.ty).__name__ if hasattr(a,'ty') else a for a in res.args])

# 11. tracked metadata
t = TrackedDfg(tys.Bool, track_inputs=True)
n = t.add(ops.Noop()(0), metadata={"a": 1})
print("11 tracked metadata:", t.hugr[n].metadata)
