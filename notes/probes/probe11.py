import json, time
from jsonschema import Draft202012Validator
from hugr import Hugr, tys, ops, val
from hugr.package import Package
from hugr.ext import *
exec(open('/verif/notes/probes/probe7.py').read().split("j1 = m.hugr.to_json()")[0])
schema = json.load(open('/repo/specification/schema/hugr_schema_strict_live.json'))
def validator(defn):
    return Draft202012Validator({"$ref": f"#/$defs/{defn}", "$defs": schema["$defs"]})
t=time.time()
doc = json.loads(m.hugr.to_json())
errs = list(validator("SerialHugr").iter_errors(doc)); print("hugr errors", [ (list(e.absolute_path), e.message[:100]) for e in errs[:5]], "ms", (time.time()-t)*1000)
e = Extension("my.ext", Version(0,1,2), runtime_reqs={"a","b"})
e.add_type_def(TypeDef("T","desc",[tys.TypeTypeParam(tys.TypeBound.Any)], FromParamsBound([0])))
e.add_op_def(OpDef("op", OpDefSig(tys.PolyFuncType([tys.TypeTypeParam(tys.TypeBound.Any)], tys.FunctionType([tys.Variable(0,tys.TypeBound.Any)],[tys.Bool]))), "d", {"k":[1,2]}))
e.add_op_def(OpDef("bin", OpDefSig(None, True)))
e.add_extension_value(ExtensionValue("v", val.TRUE))
errs = list(validator("Extension").iter_errors(json.loads(e.to_json()))); print("ext errors", [(list(x.absolute_path), x.message[:100]) for x in errs[:5]])
p = Package([m.hugr],[e]); pj = json.loads(p._to_serial().model_dump_json())
errs = list(validator("Package").iter_errors(pj)); print("pkg errors", [(list(x.absolute_path), x.message[:100]) for x in errs[:5]])
from hugr.std.int import INT_OPS_EXTENSION
errs = list(validator("Extension").iter_errors(json.loads(INT_OPS_EXTENSION.to_json()))); print("std int errors", len(errs))
