import json
from hugr import Hugr, tys, ops, val, model
from hugr.build.dfg import Dfg
from hugr.build.function import Module
from hugr.qsystem.result import QsysShot, QsysResult

m = Module()
f = m.define_function("f", [tys.Bool], [tys.Bool])
f.set_outputs(f.inputs()[0])
mn = m.define_main([tys.Bool])
c1 = mn.call(f.parent_node, mn.inputs()[0])
c2 = mn.call(f.parent_node, c1)
k = mn.load(val.TRUE)
mn.add_state_order(c1, c2)
mn.set_outputs(c2)
mod = m.hugr.to_model()
def show(r, ind=0):
    p = " " * ind
    print(p, "REGION", r.kind, "src", r.sources, "tgt", r.targets, "meta", r.meta)
    for n in r.children:
        print(p, " NODE", type(n.operation).__name__, repr(getattr(n.operation, "symbol", getattr(n.operation, "operation", "")))[:150], "in", n.inputs, "out", n.outputs, "meta", n.meta)
        for rr in n.regions: show(rr, ind + 4)
show(mod.root)

# qsys
s = QsysShot([("c[0]", 1), ("c", [0, 0]), ("c[0]", 1)])
print("Q1 expect {'c':'10'} got", s.to_register_bits())
s = QsysShot([("c", True), ("d[1]", True)])
print("Q2 bools:", s.to_register_bits())
r = QsysResult([QsysShot([("a", 1)]), QsysShot([("a", 1), ("b", 0)])])
try:
    print("Q3 strict_names superset accepted:", r.register_bitstrings(strict_names=True))
except ValueError as e: print("Q3 rejected", e)
r = QsysResult([QsysShot([("a", 1), ("b", 0)]), QsysShot([("a", 1)])])
try:
    print("Q4 strict_names subset accepted:", r.register_bitstrings(strict_names=True))
except ValueError as e: print("Q4 rejected", e)
