from hugr import tys, ops, val
from hugr.build.dfg import Dfg
from hugr.hugr.render import RenderConfig, PALETTE
from hugr.std.int import DivMod, INT_T
import re
d = Dfg(INT_T, INT_T)
x, y = d.inputs()
dm = d.add_op(DivMod, x, y, metadata={"m": "<b>&"})
with d.add_nested(dm[0]) as n:
    n.set_outputs(*n.inputs())
d.add_state_order(dm, n.parent_node)
d.set_outputs(n, dm[1])
for q in (False, True):
    src = d.hugr.render_dot(RenderConfig(PALETTE["nb"], qualify_op_name=q)).source
    s2 = re.sub(r"label=<.*?>\s*shape=plain", lambda m: "label=<" + " ".join(re.findall(r"<B>.*?</B>|PORT=\"[^\"]*\"|m: [^<]*<B|: .*?</FONT>", m.group(0), re.S))[:300] + "> shape=plain", src, flags=re.S)
    print(s2[:3000]); print("=====")
import subprocess
p = subprocess.run(["dot", "-Tcanon"], input=src.encode(), capture_output=True); print("dot rc", p.returncode, p.stderr.decode()[:300])
