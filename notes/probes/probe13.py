import json, sys, copy
from pydantic import ConfigDict, ValidationError
from jsonschema import Draft202012Validator
from hugr._serialization.serial_hugr import SerialHugr
from hugr._serialization.extension import Extension, Package
exec(open('/verif/notes/probes/probe7.py').read().split("j1 = m.hugr.to_json()")[0].replace("t0=time.time()","import time; t0=time.time()"))
doc = json.loads(m.hugr.to_json())
mode = sys.argv[1]
cfg = ConfigDict(strict=True, extra="forbid") if mode=="strict" else ConfigDict(strict=False, extra="allow")
SerialHugr._pydantic_rebuild(cfg, force=True)
schema = json.load(open(f"/repo/specification/schema/hugr_schema{'_strict' if mode=='strict' else ''}_live.json"))
V = Draft202012Validator({"$ref": "#/$defs/SerialHugr", "$defs": schema["$defs"]})
def pyd(d):
    try: SerialHugr.model_validate_json(json.dumps(d)); return True
    except ValidationError: return False
def js(d): return V.is_valid(d)
muts = {}
d = copy.deepcopy(doc); muts["valid"] = d
d = copy.deepcopy(doc); d["nodes"][4]["zzz"] = 1; muts["extra key in op"] = d
d = copy.deepcopy(doc); del d["nodes"][4]["sum_rows"]; muts["missing defaulted sum_rows"] = d
d = copy.deepcopy(doc); del d["nodes"][1]["name"]; muts["missing required name"] = d
d = copy.deepcopy(doc); d["nodes"][4]["op"] = "Conditionl"; muts["bad discriminator"] = d
d = copy.deepcopy(doc); d["nodes"][2]["types"] = "x"; muts["types string"] = d
d = copy.deepcopy(doc); d["nodes"][2]["types"][0]["t"] = "Z"; muts["bad type tag"] = d
d = copy.deepcopy(doc); d["edges"][0][0][1] = None; muts["null offset"] = d
d = copy.deepcopy(doc); d["nodes"][2]["parent"] = "1"; muts["parent as string"] = d
d = copy.deepcopy(doc); d["nodes"][2]["parent"] = 1.0; muts["parent 1.0"] = d
d = copy.deepcopy(doc); d["metadata"] = [None, {"a": 1}]; muts["metadata"] = d
d = copy.deepcopy(doc); d["extra_top"] = 1; muts["extra top"] = d
for k, d in muts.items(): print(mode, f"{k:32s} pydantic={pyd(d)!s:5} jsonschema={js(d)!s:5}", "" if pyd(d)==js(d) else "<<< DISAGREE")
