import json
from hugr import Hugr, tys, ops, val
from hugr.build.dfg import Dfg
from hugr.ext import *
from hugr.ext import ExtensionRegistry
from hugr import ext as E
from hugr.std.logic import Not, EXTENSION as LOGIC
from hugr.std.int import IntVal, int_t
from hugr.std.float import FloatVal
from hugr.std.prelude import StringVal
from hugr.std.collections.array import ArrayVal, Array
from hugr.std.collections.list import ListVal
from hugr.std.collections.static_array import StaticArrayVal

# F32
d = Dfg(tys.Bool); n = d.add_op(Not, d.inputs()[0]); d.set_outputs(n)
j = json.loads(d.hugr.to_json()); print("desc emitted by python for Not:", repr(j["nodes"][3]["description"]))
j["nodes"][3]["description"] = "user text"
h = Hugr.load_json(json.dumps(j)); print("loaded desc:", repr(h[list(h)[3]].op.description))
reg = ExtensionRegistry(); reg.add_extension(LOGIC)
h.resolve_extensions(reg); print("resolved op:", type(h[list(h)[3]].op).__name__, "desc after:", repr(json.loads(h.to_json())["nodes"][3]["description"]), "def desc:", repr(LOGIC.get_op("Not").description))

# C10 roundtrip
e = Extension("my.ext", Version(0,1,2), runtime_reqs={"a","b"})
e.add_type_def(TypeDef("T","desc",[tys.TypeTypeParam(tys.TypeBound.Any)], FromParamsBound([0])))
e.add_op_def(OpDef("op", OpDefSig(tys.PolyFuncType([tys.TypeTypeParam(tys.TypeBound.Any)], tys.FunctionType([tys.Variable(0,tys.TypeBound.Any)],[tys.Bool], ["zzz","aaa"]))), "d", {"k":[1,2]}))
e.add_op_def(OpDef("bin", OpDefSig(None, True)))
e.add_extension_value(ExtensionValue("v", val.TRUE))
j1 = e.to_json(); e2 = Extension.from_json(j1); j2 = e2.to_json()
print("ext fixed point", json.loads(j1)==json.loads(j2)); 
print(json.loads(j1)["operations"]["op"]["signature"]["body"]["runtime_reqs"], json.loads(j2)["operations"]["op"]["signature"]["body"]["runtime_reqs"], json.loads(j1)["runtime_reqs"])
print("owner:", e2.operations["op"]._extension is e2, e2.types["T"]._extension is e2, e2.values["v"]._extension is e2)

# C14
for v in [IntVal(3,5), FloatVal(1.5), StringVal("é"), ArrayVal([IntVal(1,3), IntVal(2,3)], int_t(3)), ListVal([val.TRUE], tys.Bool), StaticArrayVal([val.TRUE], tys.Bool, "nm"), val.Some(val.TRUE), val.None_(tys.Bool), val.Left([val.TRUE],[tys.Unit]), val.Right([tys.Unit],[val.FALSE]), val.Tuple(IntVal(1,0))]:
    s = v._to_serial_root().model_dump(mode="json") if hasattr(v._to_serial_root(),"model_dump") else None
    print(type(v).__name__, "type:", v.type_(), "| json:", json.dumps(s)[:160])
